#!/usr/bin/env python3
"""Take a seeded change written by a sub-agent in /tmp/seed-<prop>[-k], confirm it independently in a fresh
scratch worktree (compiles, passes the 55 baseline tests, demonstration fails with it and passes without),
store it as /verif/seeded/<id>/ (patch.diff, demonstration, meta.json) and run the property's check(s)
against the changed tree (through VERIF_REPO, so /repo itself is never touched).

  harvest_seed.py <source dir> <seed id> [--props C03,C02] [--tier quick] [--features optim-mip]
"""
import hashlib
import json
import os
import shutil
import subprocess
import sys
import tempfile
import time

VERIF = os.path.dirname(os.path.dirname(os.path.abspath(__file__)))


def sh(cmd, timeout=None, **kw):
    import signal
    p = subprocess.Popen(cmd, stdout=subprocess.PIPE, stderr=subprocess.STDOUT, text=True, start_new_session=True, **kw)
    try:
        out, _ = p.communicate(timeout=timeout)
        return p.returncode, out
    except subprocess.TimeoutExpired:
        try:
            os.killpg(p.pid, signal.SIGKILL)
        except ProcessLookupError:
            pass
        out, _ = p.communicate()
        return 124, "TIMEOUT\n" + (out or "")


def main():
    src, sid = sys.argv[1], sys.argv[2]
    props = None
    tier = "quick"
    features = []
    a = sys.argv[3:]
    i = 0
    while i < len(a):
        if a[i] == "--props":
            props = a[i + 1].split(",")
        elif a[i] == "--tier":
            tier = a[i + 1]
        elif a[i] == "--features":
            features = features + ["--features", a[i + 1]]
        elif a[i] == "--demo-profile":
            # some changes only show without debug assertions: run the demonstration with --release
            features = features + ["--" + a[i + 1]]
        i += 2
    meta_src = json.load(open(os.path.join(src, "seed_meta.json")))
    prop = meta_src.get("property", sid.split("-")[0])
    props = props or [prop]
    dst = os.path.join(VERIF, "seeded", sid)
    os.makedirs(dst, exist_ok=True)
    shutil.copyfile(os.path.join(src, "seed.diff"), os.path.join(dst, "patch.diff"))
    shutil.copyfile(os.path.join(src, "tests", "seed_demo.rs"), os.path.join(dst, "seed_demo.rs"))

    d = tempfile.mkdtemp(prefix="volute-seed-", dir="/tmp")
    os.rmdir(d)
    ran = []
    ok = True
    try:
        rc, out = sh(["git", "-C", "/repo", "worktree", "add", "--detach", d, "HEAD"])
        assert rc == 0, out
        shutil.copyfile("/repo/Cargo.lock", os.path.join(d, "Cargo.lock"))
        os.makedirs(os.path.join(d, "tests"), exist_ok=True)
        shutil.copyfile(os.path.join(dst, "seed_demo.rs"), os.path.join(d, "tests", "seed_demo.rs"))
        env = dict(os.environ, CARGO_NET_OFFLINE="true", CARGO_TARGET_DIR=os.path.join(d, "target"))
        # demonstration on the unchanged tree
        rc, out = sh(["cargo", "test", "--offline", "--test", "seed_demo"] + features, cwd=d, env=env, timeout=1800)
        ran.append({"cmd": "cargo test --test seed_demo (unchanged tree)", "exit": rc})
        demo_passes_without = rc == 0
        rc, out = sh(["git", "-C", d, "apply", os.path.join(dst, "patch.diff")])
        assert rc == 0, "patch does not apply: " + out
        os.remove(os.path.join(d, "tests", "seed_demo.rs"))
        rc, out = sh(["cargo", "test", "--workspace", "--no-fail-fast", "--offline"], cwd=d, env=env, timeout=900)
        baseline = rc == 0 and "55 passed; 0 failed" in out
        ran.append({"cmd": "cargo test --workspace --no-fail-fast --offline (with the change)", "exit": rc, "55_passed": baseline})
        shutil.copyfile(os.path.join(dst, "seed_demo.rs"), os.path.join(d, "tests", "seed_demo.rs"))
        rc, out = sh(["cargo", "test", "--offline", "--test", "seed_demo"] + features, cwd=d, env=env, timeout=1800)
        demo_fails_with = rc != 0 and ("test result: FAILED" in out or "panicked" in out)
        ran.append({"cmd": "cargo test --test seed_demo (with the change)", "exit": rc})
        os.remove(os.path.join(d, "tests", "seed_demo.rs"))
        ok = baseline and demo_passes_without and demo_fails_with
        checks = {}
        if ok:
            for p in props:
                t0 = time.time()
                rc, out = sh([os.path.join(VERIF, "check"), p, "--tier", tier], cwd=VERIF,
                             env=dict(os.environ, VERIF_REPO=d), timeout=6 * 3600)
                sigs = [l.strip()[:300] for l in out.splitlines() if l.startswith("  [")]
                checks[p + "@" + tier] = {"exit": rc, "caught": rc == 1, "seconds": round(time.time() - t0, 1),
                                          "first_signatures": sigs[:3]}
                ran.append({"cmd": "VERIF_REPO=<worktree with the change> ./check %s --tier %s" % (p, tier), "exit": rc})
        meta_path = os.path.join(dst, "meta.json")
        meta = {}
        if os.path.exists(meta_path):
            meta = json.load(open(meta_path))
        meta.update({
            "id": sid,
            "property": prop,
            "author": "independent sub-agent given only the property text and a scratch worktree",
            "summary": meta_src.get("summary"),
            "needs_to_manifest": meta_src.get("needs"),
            "failing_example": meta_src.get("failing_example"),
            "confirmed": {"compiles_and_55_baseline_tests_pass": baseline,
                          "demonstration_passes_without_change": demo_passes_without,
                          "demonstration_fails_with_change": demo_fails_with},
            "kept": ok,
        })
        meta.setdefault("checks", {}).update(checks)
        meta["ran"] = ran
        json.dump(meta, open(meta_path, "w"), indent=1)
        print(json.dumps({k: meta[k] for k in ("id", "summary", "confirmed", "checks")}, indent=1))
    finally:
        sh(["git", "-C", "/repo", "worktree", "remove", "--force", d])
        sh(["rm", "-rf", d])
        h = hashlib.sha1(os.path.abspath(d).encode()).hexdigest()[:12]
        sh(["rm", "-rf", os.path.join(VERIF, "target", "alt", h)])
        sh(["git", "-C", "/repo", "worktree", "prune"])


if __name__ == "__main__":
    main()
