#!/usr/bin/env python3
"""Rewrite the table of seeded changes in DESIGN.md (between the SEED-TABLE markers) from seeded/*/meta.json."""
import glob
import json
import os

VERIF = os.path.dirname(os.path.dirname(os.path.abspath(__file__)))
rows = []
n = missed = 0
for d in sorted(glob.glob(os.path.join(VERIF, "seeded", "*", "meta.json"))):
    m = json.load(open(d))
    if not m.get("kept", True):
        continue
    n += 1
    checks = m.get("checks", {})
    caught = [k for k, v in checks.items() if v.get("caught")]
    sig = ""
    for k, v in checks.items():
        if v.get("caught") and v.get("first_signatures"):
            f = v["first_signatures"][0]
            sig = f.split("] ", 1)[1].split(": ", 1)[0] if "] " in f else ""
            break
    first = "history" in m
    missed += first
    rows.append("| %s | %s | %s | %s | %s | `%s` |" % (
        m["id"], m["property"], (m.get("summary") or "").replace("|", "/").replace("\n", " ")[:240],
        (m.get("needs_to_manifest") or "").replace("|", "/").replace("\n", " ")[:220],
        ("NOT caught (see the history field: outside the property's domain, or beyond any defensible budget)" if not caught else
         ("missed at first, caught after strengthening" if first else "caught") + " (" + ", ".join(caught) + ")"),
        sig.replace("|", "\\|")))
table = ["<!-- SEED-TABLE-BEGIN -->",
         "%d seeded changes kept; %d were missed by the quick check as it stood when they arrived." % (n, missed), "",
         "| seed | property | change | needs | quick check | first violation signature |", "|---|---|---|---|---|---|"] + rows + ["<!-- SEED-TABLE-END -->"]
p = os.path.join(VERIF, "DESIGN.md")
s = open(p).read()
a = s.index("<!-- SEED-TABLE-BEGIN -->")
b = s.index("<!-- SEED-TABLE-END -->") + len("<!-- SEED-TABLE-END -->")
s = s[:a] + "\n".join(table) + s[b:]
open(p, "w").write(s)
print(n, "seeds,", missed, "missed at first")
