#!/usr/bin/env python3
"""Regenerate /verif/MANIFEST.json from the table below (kept next to the checks so that the
manifest never drifts from what is built)."""
import json
import os
import subprocess

VERIF = os.path.dirname(os.path.dirname(os.path.abspath(__file__)))

# id -> (technique, level text, level note, DESIGN section)
TRUST = ("Trusted: the harness' bit-level reference model and oracles (harness/vmon/src/model.rs, twolevel.rs), "
         "std::panic::catch_unwind, rustc's overflow-checks/debug-assertions instrumentation, the driver's merge. ")

CHECKS = {
    "C01": ("runtime monitoring: reference-model monitor over all 28 syntactic operator forms of both table types, run in two instrumented build profiles",
            "All pairs of functions for n<=3 and engineered/random pairs up to n=14; each result compared assignment by assignment with an independent model, borrowed operands compared before/after, all forms cross-compared. Held on the executions observed, not a proof.",
            TRUST + "Sizes above 3 are sampled (families engineered for word boundaries).", "3/C01"),
    "C02": ("runtime monitoring: invariant-at-the-API-boundary monitor over generated histories of ~60 public operations (representation invariant + extensionality of ==/Hash/Ord against value())",
            "Thousands of 40..80-step histories per size and type; after every step the produced value is checked for the block-view invariant and compared (==, hash, cmp) with every pool member and every earlier value of the same function reached by a different route.",
            TRUST + "Equality is judged against value(m), exactly as the property is worded; histories are sampled.", "3/C02"),
    "C03": ("runtime monitoring: reference-model monitor for flip/swap/cofactor/from_cofactors over all functions n<=4 and all index pairs, engineered families up to n=14, two build profiles",
            "Every function of n<=4 with every index (pair); dense/sparse/per-word-distinct families above that with every index pair, so each storage regime of the kernels (in-word, split, word-swap) is reached for every n; in-place vs copying forms and Shannon round trip cross-checked.",
            TRUST, "3/C03"),
    "C04": ("runtime monitoring: independent orbit-enumeration oracle + metamorphic class monitor + hook monitor over the swap/flip sequences the walker was actually handed",
            "All functions for n<=4 against the independently enumerated orbit minimum (lexicographic permutations x counted polarities); sampled functions to n=8 (N to 12, P to 9); idempotence; images under random group elements; the recorded walk must visit every group element (n>=5).",
            TRUST + "The hook (feature verif-hooks) records the sequences at the point of use. Sizes >= 5 are sampled.", "3/C04"),
    "C05": ("runtime monitoring: independent certificate evaluator over every canonization result, including inputs that are already canonical and inputs with non-trivial stabilisers",
            "Every function n<=4 for the three groups and both types; for n=5..8 random/structured functions and their representatives fed back in; perm must be a permutation, mask < 2^(n+1), and the certificate applied to the input by the model must equal the returned table on every assignment.",
            TRUST, "3/C05"),
    "C06": ("runtime monitoring: reference-model monitor (priority list of the statement evaluated on model cofactors; pointwise unateness) over all functions n<=4 and constructed class members / near misses up to n=14",
            "All functions and variables for n<=4; for larger n a constructed member of every class for every variable plus near misses with one bit flipped in the first / a middle / the last word.",
            TRUST, "3/C06"),
    "C07": ("runtime monitoring: differential monitor against a textbook shared complement-edge ROBDD (unique table) + metamorphic monitors (order, duplicates, complement)",
            "All single functions n<=4, all pairs n<=3, random/structured/Shannon-composed lists of 0..4 functions to n=12 with sharing forced at every level; coverage requires cross-function sharing in >= 10% of multi-function events.",
            TRUST, "3/C07"),
    "C08": ("runtime monitoring: big-integer order oracle over pairs/vectors + iterator monitor (complete runs n<=4; hooked successor steps from arbitrary tables incl. all carry lengths; scripts of std Iterator methods judged by position arithmetic)",
            "All pairs n<=3, one-bit/two-bit differences in every word position and cross-size pairs above; sort() against the oracle; complete all_functions runs for n<=4 in both types; successor/termination from arbitrary starts through hook verif_iter_from for every carry length; nth/skip/step_by/take/min/max/count/last/fold/size_hint scripts with counts up to usize::MAX on fresh and positioned iterators for every n.",
            TRUST + "verif_iter_from (feature verif-hooks) builds the real iterator on an arbitrary table.", "3/C08"),
    "C09": ("runtime monitoring: rendering oracle + parsing oracle (well-formedness predicate) over exhaustive small string spaces and mutation-based hostile strings; formatting traits also reached with format-spec flags and through fault-injecting writers",
            "Printing of all functions n<=4 and families to n=14; all strings over a 24-symbol alphabet (hex, upper case, sign, space, non-hex, multi-byte) up to width+2 for n<=3; mutations of valid strings at every position of the first/middle/last chunk for larger n; never-panics and rejects-everything-else monitors; {:#}/width/fill/+/0 flags and writers failing after k bytes on every print event.",
            TRUST, "3/C09"),
    "C10": ("runtime monitoring: differential monitor LutN vs Lut over a 47-operation catalogue + conversion monitors (exhaustive u8/u16, 2^32 u32 sweep in thorough)",
            "Every operation of the catalogue (and the formatting traits under 45 format specs) with identical in-range arguments on both types for N=0..12 (all pairs of functions for N<=2); results compared structurally incl. panic/no panic; TryFrom for every (N,n) pair; integer conversions bit-exact; both all_functions iterators driven through the same Iterator-method scripts; remembered events re-executed later must return the same results.",
            TRUST + "Differential: a defect shared by both types is invisible here (owned by the other properties).", "3/C10"),
    "C11": ("runtime monitoring: popcount-definition oracle for every named constructor, arguments incl. k up to usize::MAX and count masks with garbage, two build profiles",
            "n=0..14, all i, k in 0..=n+2 and around 32/64/128/usize::MAX, all 2^(n+1) count masks for n<=4 (all to n=12 in thorough) plus walking ones/zeros and random 64-bit masks.",
            TRUST, "3/C11"),
    "C12": ("runtime monitoring: set-semantics oracle for cubes, exhaustive for n<=5 (all literal-mask pairs incl. contradictory), random 32-variable cubes decided by support enumeration",
            "All cubes, pairs and assignments for n<=5; chains of &; enumeration; minterm; implies_lut against all functions n<=3 (4 in thorough); wide cubes with two-digit variables up to 31; from_vars lists in any order with repeats; Iterator-method scripts on Cube::all / pos_vars / neg_vars.",
            TRUST, "3/C12"),
    "C13": ("runtime monitoring: parity-semantics oracle for exclusive cubes (exhaustive n<=5) and OR-of-terms oracle for Soes (exhaustive short lists, sampled longer ones)",
            "All exclusive cubes/pairs/assignments n<=5, all forms of ^ and !, enumeration, implies_lut; all Soes term lists of length <=2 (3 in thorough) over n<=3, sampled to 4 terms and n=8; conversions to Lut; is_zero/is_one soundness; dense 32-variable terms with related partners; Iterator-method scripts on Ecube::all / vars.",
            TRUST, "3/C13"),
    "C14": ("runtime monitoring: denotational + structural monitors on every intermediate of generated Sop expressions (from_cubes operands with overlapping/nested/duplicate cubes)",
            "All sub-lists and pairs for n<=2; complement of all 15 936 irredundant lists of n=3, sampled pairs (all 2.5e8 pair-ops in thorough); random lists to n=10; nested expressions to 4 operations; every result checked on every assignment, through Lut::from, and for contradictory/duplicate/contained cubes.",
            TRUST, "3/C14"),
    "C15": ("runtime monitoring: ANF-by-definition oracle for Lut->Esop (all functions n<=4), XOR/complement oracle for Esop operators on arbitrary cube lists",
            "All 65 536+ functions of n<=4 and families to n=10: cubes all-positive, distinct, exactly the monomials with coefficient 1, equal for equal functions with different histories, round trip; operator forms on random mixed-polarity lists; ^-chains of up to 9 operands and 520-cube lists with repeated cubes checked after every step.",
            TRUST, "3/C15"),
    "C16": ("runtime monitoring: printed text parsed by an independent recursive-descent evaluator of the evident grammar and evaluated on every assignment against value()",
            "All cubes/exclusive cubes n<=4 (5 in thorough), all Sop/Esop/Soes with <=2 terms over n<=3 (3 in thorough), random forms to 12 variables and 32-variable cubes with two-digit indices; increasing indices; distinct cubes print distinct text; long forms; format-spec flags and writers failing after k bytes must give the same text / a prefix of it.",
            TRUST + "The grammar is read liberally (blanks free, juxtaposition = AND): layout is not part of the property.", "3/C16"),
    "C17": ("runtime monitoring: two instrumented builds (debug-assertions+overflow-checks on / off) each write an event log of the same seeded script; offline checker requires panic in both logs for invalid arguments and identical result digests for valid ones",
            "Every index-taking entry point of both types for n=0..8 with indices n..n+70, 2^32, 2^63+n, usize::MAX-1, usize::MAX; size-mismatched operands in every operator form; wrong-length block slices; plus the 47-operation catalogue on valid arguments diffed between the profiles.",
            TRUST + "Profiles compared: opt-level 2 + debug-assertions + overflow-checks vs opt-level 3 without.", "3/C17"),
    "C18": ("runtime monitoring: differential monitor against an exhaustive shortest-path optimum (independent of any MIP model) + denotation/implicant monitors, feature optim-mip (HiGHS)",
            "n<=2 with 1..2 outputs for every function (pair) and cost triple, all single functions of n=3, every n=3 function listed twice under all 27 cost triples, sampled 2..3-output n=3, 1..3-output n=4 lists; dense n=3..4 lists with 2..3 outputs judged by local optimality and dominance across cost triples (3 000 quick / 400 000 thorough); only costs are compared; sharing between outputs must have been strictly cheaper in some event.",
            TRUST + "HiGHS is trusted to return what it claims (its answer is checked for validity and optimality, not its internals).", "3/C18"),
    "C19": ("runtime monitoring: statistical checkers over per-thread draw logs (1 thread and 16 threads released by a barrier) + Miri (UB / data-race interpreter) on a 4-thread miniature",
            "256 draws per size, type and thread: well-formedness, both values at every assignment, pairwise distinctness, word independence, thread independence, thread-start rounds, 2^18..2^20 draws per size pairwise distinct in 256 bits, thresholds with false-alarm probability < 2^-200; Miri with several scheduler seeds interprets rand's unsafe thread-local generator code.",
            TRUST + "Statistical: a generator can be biased in ways these one-sided tests do not see.", "3/C19"),
}

MIX = (" Alias forms (one object on both sides), std-trait routes and operands built through every construction route are part "
       "of the workload; a thinned sample of all events is re-executed mixed on one thread and then on 8 threads at once under "
       "the same monitors (hidden-state / shared-state monitors, DESIGN.md section 1).")
for _k in list(CHECKS):
    if _k not in ("C17", "C19"):
        t, lvl, note, ref = CHECKS[_k]
        CHECKS[_k] = (t, lvl + MIX, note, ref)

PENDING_REASON = "check not yet built in this session (work in progress; runtime monitoring applies, see DESIGN.md section 3)"


def hook_commits():
    out = subprocess.run(["git", "-C", "/repo", "log", "--format=%H %s"], stdout=subprocess.PIPE, text=True).stdout
    return [l.split()[0] for l in out.splitlines() if " verif-hooks:" in " " + l]


def main():
    props = [json.loads(l)["id"] for l in open(os.path.join(VERIF, "properties.jsonl"))]
    checks = []
    na = []
    for p in props:
        if p in CHECKS:
            tech, text, note, ref = CHECKS[p]
            checks.append({
                "property_id": p,
                "quick_cmd": "./check %s --tier quick" % p,
                "thorough_cmd": "./check %s --tier thorough" % p,
                "evidence_file": "/verif/evidence/%s.json" % p,
                "replay_cmd_template": "./check %s --replay {path}" % p,
                "engine": "vmon",
                "level_claimed": {"category": "exploration", "text": text, "design_ref": "DESIGN.md section " + ref},
                "level_note": note,
                "technique": tech,
            })
        else:
            na.append({"property_id": p, "reason": PENDING_REASON})
    m = {
        "version": 1,
        "setup_cmd": "./setup.sh",
        "hooks": {
            "guard": "cargo feature verif-hooks",
            "enable": "harness/Cargo.toml.in depends on volute with features = [\"verif-hooks\"] (path = the repository); "
                      "every ./check rebuilds it from the working tree",
            "baseline_off_cmd": "cd /repo && cargo test --workspace --no-fail-fast --offline",
            "source_commits": hook_commits(),
            "add_only": True,
        },
        "engines": [
            {"name": "vmon", "path": "/verif/harness",
             "serves_properties": sorted(CHECKS),
             "kind_free_text": "Rust harness (one monitor binary per property) driven by /verif/check: generated and "
                               "exhaustive workloads executed against the real library in two instrumented build "
                               "profiles, observed by reference-model / invariant / differential / event-log monitors; "
                               "Miri for C19"},
        ],
        "checks": checks,
        "not_applicable": na,
        "notes": "Verdicts are three-valued: exit 0 held-on-observed, exit 1 VIOLATION, exit 2 INCONCLUSIVE "
                 "(build failure, watchdog, coverage hole). KNOWN_FINDINGS.txt lists repaired defects (fixed:) and "
                 "any open finding by exact signature. VERIF_REPO points the checks at another checkout (self-test).",
    }
    with open(os.path.join(VERIF, "MANIFEST.json"), "w") as f:
        json.dump(m, f, indent=1)
        f.write("\n")
    try:
        import jsonschema
        jsonschema.validate(m, json.load(open("/root/.vp/MANIFEST.schema.json")))
        print("manifest valid (jsonschema)")
    except ImportError:
        print("manifest written (jsonschema not importable here)")


if __name__ == "__main__":
    main()
