#!/usr/bin/env python3
"""Regenerate /verif/MANIFEST.json from the table below (kept next to the checks so that the
manifest never drifts from what is built)."""
import json
import os
import subprocess

VERIF = os.path.dirname(os.path.dirname(os.path.abspath(__file__)))

# id -> (technique, level text, level note, DESIGN section)
CHECKS = {
    "C01": ("runtime monitoring: bit-level reference-model monitor over every syntactic operator form, "
            "two instrumented build profiles (overflow-checks/debug-assertions on and off)",
            "Every one of the 28 syntactic forms of NOT/AND/OR/XOR of both table types is executed on all "
            "pairs of functions for n<=3 and on engineered/random pairs for n up to 14, each result compared "
            "assignment by assignment with an independent model, borrowed operands compared before/after, all "
            "forms cross-compared; held-on-observed-executions, not a proof.",
            "Trusted: the harness' Vec<bool> reference model, catch_unwind, rustc's overflow instrumentation. "
            "Sizes above 3 are sampled (families engineered for word boundaries), not exhausted.",
            "3/C01"),
}

PENDING_REASON = "check not yet built in this session (work in progress; runtime monitoring applies, see DESIGN.md section 3)"


def hook_commits():
    out = subprocess.run(["git", "-C", "/repo", "log", "--format=%H %s"], stdout=subprocess.PIPE, text=True).stdout
    return [l.split()[0] for l in out.splitlines() if " verif-hooks:" in " " + l]


def main():
    props = [json.loads(l)["id"] for l in open(os.path.join(VERIF, "properties.jsonl"))]
    checks = []
    na = []
    for p in props:
        if p in CHECKS:
            tech, text, note, ref = CHECKS[p]
            checks.append({
                "property_id": p,
                "quick_cmd": "./check %s --tier quick" % p,
                "thorough_cmd": "./check %s --tier thorough" % p,
                "evidence_file": "/verif/evidence/%s.json" % p,
                "replay_cmd_template": "./check %s --replay {path}" % p,
                "engine": "vmon",
                "level_claimed": {"category": "exploration", "text": text, "design_ref": "DESIGN.md section " + ref},
                "level_note": note,
                "technique": tech,
            })
        else:
            na.append({"property_id": p, "reason": PENDING_REASON})
    m = {
        "version": 1,
        "setup_cmd": "./setup.sh",
        "hooks": {
            "guard": "cargo feature verif-hooks",
            "enable": "harness/Cargo.toml.in depends on volute with features = [\"verif-hooks\"] (path = the repository); "
                      "every ./check rebuilds it from the working tree",
            "baseline_off_cmd": "cd /repo && cargo test --workspace --no-fail-fast --offline",
            "source_commits": hook_commits(),
            "add_only": True,
        },
        "engines": [
            {"name": "vmon", "path": "/verif/harness",
             "serves_properties": sorted(CHECKS),
             "kind_free_text": "Rust harness (one monitor binary per property) driven by /verif/check: generated and "
                               "exhaustive workloads executed against the real library in two instrumented build "
                               "profiles, observed by reference-model / invariant / differential / event-log monitors; "
                               "Miri for C19"},
        ],
        "checks": checks,
        "not_applicable": na,
        "notes": "Verdicts are three-valued: exit 0 held-on-observed, exit 1 VIOLATION, exit 2 INCONCLUSIVE "
                 "(build failure, watchdog, coverage hole). KNOWN_FINDINGS.txt lists repaired defects (fixed:) and "
                 "any open finding by exact signature. VERIF_REPO points the checks at another checkout (self-test).",
    }
    with open(os.path.join(VERIF, "MANIFEST.json"), "w") as f:
        json.dump(m, f, indent=1)
        f.write("\n")
    try:
        import jsonschema
        jsonschema.validate(m, json.load(open("/root/.vp/MANIFEST.schema.json")))
        print("manifest valid (jsonschema)")
    except ImportError:
        print("manifest written (jsonschema not importable here)")


if __name__ == "__main__":
    main()
