#!/bin/sh
# Silence runs on the unchanged tree: every check at several seeds must exit 0 without a VIOLATION line.
#   usage: tools/silence.sh [tier] [seed...]
cd "$(dirname "$0")/.."
TIER=${1:-quick}
shift 2>/dev/null
SEEDS=${*:-"2 3 7 12345 99991"}
bad=0
for s in $SEEDS; do
  for i in 01 02 03 04 05 06 07 08 09 10 11 12 13 14 15 16 17 18 19; do
    out=$(VERIF_SEED=$s ./check C$i --tier $TIER 2>&1); rc=$?
    if [ $rc -ne 0 ] || echo "$out" | grep -q "^VIOLATION\|^INCONCLUSIVE"; then
      bad=$((bad+1)); echo "seed=$s C$i exit=$rc"; echo "$out" | tail -5 | cut -c1-300
    fi
  done
  echo "seed $s done"
done
echo "silence runs finished: $bad problem(s)"
