#!/bin/sh
# Source-line coverage of volute under the union of the quick workloads (informational, not a check):
# builds every monitor binary with -Cinstrument-coverage on the nightly toolchain (the only one with
# llvm-tools), runs the quick workload of each, and writes coverage/volute-coverage.txt.
#   usage: tools/coverage.sh [tier]
set -e
cd "$(dirname "$0")/.."
TIER=${1:-quick}
BIN=$HOME/.rustup/toolchains/nightly-x86_64-unknown-linux-gnu/lib/rustlib/x86_64-unknown-linux-gnu/bin
T=/verif/target/cov
export CARGO_NET_OFFLINE=true CARGO_TARGET_DIR=$T RUSTFLAGS="-Cinstrument-coverage"
mkdir -p coverage $T/prof
rm -f $T/prof/*.profraw
(cd harness && cargo +nightly build --offline --profile fast -p vmon --bins 2>&1 | tail -1)
(cd harness && cargo +nightly build --offline --profile fast -p vmon-mip --bins 2>&1 | tail -1)
OBJ=""
for i in 01 02 03 04 05 06 07 08 09 10 11 12 13 14 15 16 17 18 19; do
  LLVM_PROFILE_FILE="$T/prof/c$i-%p.profraw" $T/fast/c$i --tier $TIER --seed 1 --profile fast --out $T/prof/c$i.json --threads 16 --log $T/prof/c$i.log >/dev/null 2>&1 || echo "c$i exited non-zero"
  OBJ="$OBJ -object $T/fast/c$i"
done
$BIN/llvm-profdata merge -sparse $T/prof/*.profraw -o $T/prof/all.profdata
$BIN/llvm-cov report $OBJ -instr-profile=$T/prof/all.profdata --ignore-filename-regex='(registry|harness|rustc|library)' > coverage/volute-coverage.txt 2>/dev/null
$BIN/llvm-cov show $OBJ -instr-profile=$T/prof/all.profdata --ignore-filename-regex='(registry|harness|rustc|library)' --show-line-counts-or-regions > $T/prof/show.txt 2>/dev/null || true
cat coverage/volute-coverage.txt
