#!/bin/sh
# harvest every finished seed of a batch: tools/harvest_batch.sh <prefix dir, e.g. /tmp/seed4-> <suffix, e.g. s4> [props...]
PRE=$1; SUF=$2; shift 2
cd "$(dirname "$0")/.."
for d in ${PRE}C*; do
  [ -f "$d/seed_meta.json" ] || continue
  p=$(basename "$d" | sed 's/.*-//')
  if [ -n "$*" ] && ! echo "$*" | grep -qw "$p"; then continue; fi
  [ -f "seeded/$p-$SUF/meta.json" ] && continue
  feat=""
  [ "$p" = "C18" ] && feat="--features optim-mip"
  grep -q "verif-hooks" "$d/tests/seed_demo.rs" 2>/dev/null && feat="--features verif-hooks"
  python3 tools/harvest_seed.py "$d" "$p-$SUF" $feat 2>&1 | python3 -c "
import sys,json
try:
  j=json.load(sys.stdin); print(j['id'], all(j['confirmed'].values()), {k:(v['caught'],v['seconds'],[s[:120] for s in v['first_signatures'][:1]]) for k,v in j['checks'].items()})
except Exception as e: print('ERR $p',e)"
done
