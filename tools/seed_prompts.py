#!/usr/bin/env python3
"""Write the task descriptions given to the independent sub-agents that seed property-breaking changes.

usage: seed_prompts.py <worktree prefix> <prompt prefix> <id> [<id> ...]
Each agent gets ONLY the property text (from properties.jsonl), the one-line summaries of earlier seeds for the
same property (so that it writes something of a different kind) and a scratch worktree path; nothing from /verif.
"""
import json, glob, sys

BASE = """You are helping to evaluate a verification framework by writing a *seeded defect* for a Rust library. Work ONLY inside the git worktree {wt} (a checkout of the library Coloquinte/volute, a Rust crate for boolean functions as truth tables: dynamic `Lut` and const-generic `LutN`, NPN canonization, decomposition, BDD size, SOP/ESOP forms). Do not read, list or touch /verif or /repo, and do not use the network (there is none; cargo must be run with --offline). Use `CARGO_TARGET_DIR={wt}/target` for every cargo command so that build output stays inside your worktree.

The property of the library that your change must break:

{pid} — {title}

Statement: {statement}

Quantified over: {quant}

Your task: make a small, realistic change to the library source (under {wt}/src) — the kind of slip a maintainer could make in a refactoring or optimisation — such that
 1. the crate still compiles (`cargo build --offline`{feat}) without new warnings if possible,
 2. the crate's existing test suite still passes completely: `cd {wt} && CARGO_TARGET_DIR={wt}/target cargo test --workspace --no-fail-fast --offline` must report `55 passed; 0 failed` for the unit tests (and the 4 doc-tests pass),
 3. the property above is violated for SOME input within its quantified range, and the violation is as HARD TO FIND as you can make it while staying realistic: assume a diligent reviewer who tests every public function on thousands of random inputs of every size, on all inputs of the smallest sizes, and on the obvious corner cases (constants, single variables, all-ones, first/last index). Your defect should survive that: it should need a rare coincidence of table contents, a particular multi-step sequence of operations, a particular combination of two arguments, an unusual but legitimate way of reaching the code (a std trait, an iterator adaptor, a conversion), or two cooperating code sites that each look fine alone. Avoid trivial breaks.
 4. you provide a demonstration: a small Rust integration test file `{wt}/tests/seed_demo.rs` (using only the crate's public API{feat2}) that FAILS with your change and PASSES on the unmodified code. Verify both yourself (e.g. `git diff -- src Cargo.toml > seed.diff; git checkout -- src; <run demo>; git apply seed.diff; <run demo>`).

Deliverables, all inside {wt}:
 - `seed.diff`: output of `git diff -- src Cargo.toml` containing ONLY your change to the library (not the demo test),
 - `tests/seed_demo.rs`: the demonstration,
 - `seed_meta.json`: {{"property": "{pid}", "summary": "<one sentence: what was changed>", "needs": "<what specific input / size / sequence is needed for the violation to manifest>", "failing_example": "<the concrete call(s) and wrong result>", "ran": ["<commands you ran and their outcome>"]}}.
At the end leave the worktree with your change APPLIED to src and the demo test present. In your final message report the summary, what is needed to manifest, an estimate of how likely a random input of the affected size is to expose it, and confirm the three verifications (tests pass with change; demo fails with change; demo passes without).{extra}"""

def main():
    wtp, pp, ids = sys.argv[1], sys.argv[2], sys.argv[3:]
    props = {}
    for l in open('/verif/properties.jsonl'):
        p = json.loads(l)
        props[p['id']] = p
    prior = {}
    for d in sorted(glob.glob('/verif/seeded/*/meta.json')):
        m = json.load(open(d))
        prior.setdefault(m['property'], []).append((m.get('summary') or '')[:200])
    for pid in ids:
        p = props[pid]
        wt = wtp + pid
        extra, feat, feat2 = "", "", ""
        if pid == "C18":
            feat = " --features optim-mip"
            extra += "\nNote: this property concerns code behind the cargo feature `optim-mip` (files src/sop/optim.rs and src/sop/optim/mip.rs, HiGHS solver through good_lp). Build and run your demo with `--features optim-mip` (first build of HiGHS takes 1-2 minutes, offline works). The existing 55 tests do not enable this feature and must still pass."
        if pid == "C19":
            extra += "\nNote: random() is behind the default feature `rand`. The demonstration may be statistical but must fail reliably with the change and pass reliably without (false-alarm probability below 2^-40)."
        if pid == "C08":
            extra += "\nNote: the crate has a cargo feature `verif-hooks` exposing `Lut::verif_iter_from(&start)` / `LutN::verif_iter_from(&start)` (the all_functions iterator positioned on an arbitrary table); your demo may use it (run the demo with `--features verif-hooks`) but the 55 tests must pass without it."
        txt = BASE.format(wt=wt, pid=pid, title=p['title'], statement=p['statement'], quant=p['quantifier']['text'],
                          feat=feat, feat2=feat2, extra=extra)
        if prior.get(pid):
            txt += ("\n\nOther engineers have already seeded the following defects for this property; yours must be of a "
                    "clearly different kind (different code site AND different kind of trigger):\n"
                    + "\n".join(" - " + s for s in prior[pid]))
        open(pp + pid + '.txt', 'w').write(txt)
    print('wrote', len(ids), 'prompts')

main()
