//! C18 — MIP two-level optimizers return exact covers of minimum gate cost (DESIGN.md section 3, C18).
//!
//! Oracle: exact optimum by shortest path (Dijkstra) over covering / residual states, independent of
//! any MIP formulation.  Only costs are compared, never the forms (ties are legitimate).

use std::collections::{BinaryHeap, HashMap, HashSet};

use volute::sop::optim::{optimize_esop_mip, optimize_sop_mip, optimize_sopes_mip};
use volute::sop::{Cube, Ecube, Esop, Soes, Sop};
use volute::Lut;

use vmon::twolevel::{all_cubes, CubeM, EcubeM};
use vmon::*;

const RULE: &str = "event = one call of optimize_sop_mip / optimize_sopes_mip / optimize_esop_mip on a list of 1..3 functions \
with a gate-cost triple; monitors: one form per function, each denoting exactly its function on every assignment, \
every Sop cube and Soes term an implicant, and the total cost under the documented model (gates of the distinct \
cubes, shared between outputs, plus one OR/XOR per extra cube in each output, weighted) equal to the optimum \
found by an exhaustive shortest-path search over covering states (SOP/SOPES) or residual functions (ESOP). \
n<=2 with 1..2 outputs exhaustively, all single functions of n=3, sampled lists for n=3 (2 outputs), n=4 (1 \
output), n<=2 (3 outputs), and sparse lists built from a shared cube pool for n=3 (3 outputs) and n=4 (2..3 outputs, SOP/SOPES). non-trivial = some function neither constant nor literal; distinct = distinct \
(optimizer, n, functions, costs)";

type Mask = u32; // subset of the 2^n <= 16 assignments

fn sat_mask(n: usize, f: impl Fn(u64) -> bool) -> Mask {
    let mut m = 0;
    for a in 0..(1u64 << n) {
        if f(a) {
            m |= 1 << a;
        }
    }
    m
}

fn gates(lits: usize) -> i64 {
    std::cmp::max(lits, 1) as i64 - 1
}

/// States are packed: output j occupies bits 16*j .. 16*j+15 (at most 3 outputs of at most 16 assignments),
/// the "already has a cube" flags of the ESOP search sit above bit 48.
fn get(st: u64, j: usize) -> Mask {
    ((st >> (16 * j)) & 0xffff) as Mask
}

fn pack(ms: &[Mask]) -> u64 {
    assert!(ms.len() <= 3, "harness: at most 3 outputs");
    ms.iter().enumerate().fold(0u64, |a, (j, m)| a | ((*m as u64) << (16 * j)))
}

/// Optimum of the SOP (xor_cost = None) or SOPES problem.  State: covered part of each on-set.
fn optimum_cover(n: usize, fs: &[Mask], and_cost: i64, xor_cost: Option<i64>, or_cost: i64) -> (i64, u64) {
    // terms: (satisfying set, gate cost)
    let mut terms: Vec<(Mask, i64)> = Vec::new();
    for c in all_cubes(n) {
        terms.push((sat_mask(n, |a| c.sat(a)), and_cost * gates(c.lits())));
    }
    if let Some(xc) = xor_cost {
        for vars in 0..(1u32 << n) {
            for xnor in [false, true] {
                let e = EcubeM { vars, xnor };
                let s = sat_mask(n, |a| e.sat(a));
                if s != 0 {
                    terms.push((s, xc * gates(vars.count_ones() as usize)));
                }
            }
        }
    }
    let k = fs.len();
    let goal = pack(fs);
    let mut dist: HashMap<u64, i64> = HashMap::new();
    let mut heap: BinaryHeap<std::cmp::Reverse<(i64, u64)>> = BinaryHeap::new();
    dist.insert(0, 0);
    heap.push(std::cmp::Reverse((0, 0)));
    let mut expanded = 0u64;
    while let Some(std::cmp::Reverse((d, st))) = heap.pop() {
        if dist.get(&st).copied().unwrap_or(i64::MAX) < d {
            continue;
        }
        if st == goal {
            return (d, expanded);
        }
        expanded += 1;
        for (s, g) in &terms {
            // outputs for which the term is an implicant and adds something
            let mut usable = [0usize; 3];
            let mut nu = 0;
            for j in 0..k {
                if s & !fs[j] == 0 && s & !get(st, j) != 0 {
                    usable[nu] = j;
                    nu += 1;
                }
            }
            for sub in 1u32..(1 << nu) {
                let mut nst = st;
                let mut cost = *g;
                for (b, j) in usable.iter().take(nu).enumerate() {
                    if (sub >> b) & 1 == 1 {
                        if get(st, *j) != 0 {
                            cost += or_cost;
                        }
                        nst |= (*s as u64) << (16 * j);
                    }
                }
                let nd = d + cost;
                if nd < dist.get(&nst).copied().unwrap_or(i64::MAX) {
                    dist.insert(nst, nd);
                    heap.push(std::cmp::Reverse((nd, nst)));
                }
            }
        }
    }
    panic!("harness: cover oracle found no solution");
}

/// Optimum of the ESOP problem.  State: residual function of each output + "already has a cube" flags.
fn optimum_esop(n: usize, fs: &[Mask], and_cost: i64, xor_cost: i64) -> (i64, u64) {
    let terms: Vec<(Mask, i64)> = all_cubes(n).iter().map(|c| (sat_mask(n, |a| c.sat(a)), and_cost * gates(c.lits()))).collect();
    let k = fs.len();
    let start = pack(fs);
    let mut dist: HashMap<u64, i64> = HashMap::new();
    let mut heap: BinaryHeap<std::cmp::Reverse<(i64, u64)>> = BinaryHeap::new();
    dist.insert(start, 0);
    heap.push(std::cmp::Reverse((0, start)));
    let mut expanded = 0u64;
    while let Some(std::cmp::Reverse((d, st))) = heap.pop() {
        if dist.get(&st).copied().unwrap_or(i64::MAX) < d {
            continue;
        }
        if st & 0xffff_ffff_ffff == 0 {
            return (d, expanded);
        }
        expanded += 1;
        for (s, g) in &terms {
            for sub in 1u32..(1 << k) {
                let mut nst = st;
                let mut cost = *g;
                for j in 0..k {
                    if (sub >> j) & 1 == 1 {
                        if (st >> (48 + j)) & 1 == 1 {
                            cost += xor_cost;
                        }
                        nst |= 1u64 << (48 + j);
                        nst ^= (*s as u64) << (16 * j);
                    }
                }
                let nd = d + cost;
                if nd < dist.get(&nst).copied().unwrap_or(i64::MAX) {
                    dist.insert(nst, nd);
                    heap.push(std::cmp::Reverse((nd, nst)));
                }
            }
        }
    }
    panic!("harness: esop oracle found no solution");
}

fn fmask(n: usize, blocks: &[u64]) -> Mask {
    sat_mask(n, |a| (blocks[0] >> a) & 1 == 1)
}

fn cube_cost(cubes: &HashSet<Cube>, and_cost: i64) -> i64 {
    cubes.iter().map(|c| and_cost * gates(CubeM::of(c).lits())).sum()
}

fn exec(ctx: &mut Ctx, ev: &Ev) {
    if ev.op == "esop-dense" {
        return exec_esop_dense(ctx, ev);
    }
    if ev.op.ends_with("-dense") {
        // ints hold several triples here; see exec_dense
        return exec_dense(ctx, ev);
    }
    let n = ev.n;
    let (ac, xc, oc) = (ev.ints[0] as i64, ev.ints[1] as i64, ev.ints[2] as i64);
    let fs: Vec<Lut> = ev.tabs.iter().map(|t| Lut::from_blocks(n, t)).collect();
    let fm: Vec<Mask> = ev.tabs.iter().map(|t| fmask(n, t)).collect();
    let nontrivial = ev.tabs.iter().any(|t| Model::from_blocks(n, t).nontrivial());
    let cell = format!("{}|n={}|outputs={}", ev.op, n, fs.len());
    ctx.event(&cell, ev, nontrivial);
    let size = 1usize << n;
    let desc = || format!("{} n={} functions={:?} costs(and={},xor={},or={})", ev.op, n, fs.iter().map(|f| f.to_string()).collect::<Vec<_>>(), ac, xc, oc);
    match ev.op.as_str() {
        "sop" | "sopes" => {
            let r: Outcome<Vec<(Sop, Soes)>> = guard(|| {
                if ev.op == "sop" {
                    optimize_sop_mip(&fs, ac as i32, oc as i32).into_iter().map(|s| (s, Soes::zero(n))).collect()
                } else {
                    optimize_sopes_mip(&fs, ac as i32, xc as i32, oc as i32)
                }
            });
            let forms = match r {
                Outcome::Returned(v) => v,
                Outcome::Panicked(m) => {
                    ctx.violate("returns-a-form-per-function", ev, "panic", format!("{} panicked: {}", desc(), m));
                    return;
                }
            };
            if !ctx.check("returns-a-form-per-function", forms.len() == fs.len(), ev, "count", || format!("{} returned {} forms", desc(), forms.len())) {
                return;
            }
            let mut used_cubes: HashSet<Cube> = HashSet::new();
            let mut used_ecubes: HashSet<Ecube> = HashSet::new();
            let mut ors = 0i64;
            let mut valid = true;
            for (j, (sop, soes)) in forms.iter().enumerate() {
                let denotes = (0..size).all(|m| (sop.value(m) || soes.value(m)) == ((fm[j] >> m) & 1 == 1));
                valid &= ctx.check("denotes-function", denotes && sop.num_vars() == n && soes.num_vars() == n, ev, "denotes", || format!("{}: output {} is {} | {} which is not the function", desc(), j, sop, soes));
                let imp_c = sop.cubes().iter().all(|c| (0..size).all(|m| !c.value(m) || (fm[j] >> m) & 1 == 1) && !c.is_zero());
                let imp_e = soes.cubes().iter().all(|c| (0..size).all(|m| !c.value(m) || (fm[j] >> m) & 1 == 1));
                valid &= ctx.check("terms-are-implicants", imp_c && imp_e, ev, "implicant", || format!("{}: output {} uses a term that is not an implicant: {} | {}", desc(), j, sop, soes));
                for c in sop.cubes() {
                    used_cubes.insert(*c);
                }
                for c in soes.cubes() {
                    used_ecubes.insert(*c);
                }
                let terms = (sop.num_cubes() + soes.num_cubes()) as i64;
                ors += std::cmp::max(0, terms - 1);
            }
            if !valid {
                return;
            }
            let ecost: i64 = used_ecubes.iter().map(|e| xc * gates(EcubeM::of(e).vars.count_ones() as usize)).sum();
            let cost = cube_cost(&used_cubes, ac) + if ev.op == "sopes" { ecost } else { 0 } + oc * ors;
            let (opt, expanded) = optimum_cover(n, &fm, ac, if ev.op == "sopes" { Some(xc) } else { None }, oc);
            ctx.bump("oracle-states-expanded", expanded);
            // would sharing be strictly cheaper than optimising the outputs separately?
            if fs.len() >= 2 {
                let sep: i64 = fm.iter().map(|f| optimum_cover(n, &[*f], ac, if ev.op == "sopes" { Some(xc) } else { None }, oc).0).sum();
                if opt < sep {
                    ctx.cell_only(&format!("sharing-strictly-cheaper|{}", ev.op));
                }
            }
            assert!(cost >= opt, "harness: oracle optimum {} above the cost {} of a valid form ({})", opt, cost, desc());
            ctx.check("minimum-cost", cost == opt, ev, "cost", || format!("{}: returned forms {:?} cost {} but the optimum is {}", desc(), forms.iter().map(|(s, e)| format!("{} | {}", s, e)).collect::<Vec<_>>(), cost, opt));
        }
        "esop" => {
            let forms: Vec<Esop> = match guard(|| optimize_esop_mip(&fs, ac as i32, xc as i32)) {
                Outcome::Returned(v) => v,
                Outcome::Panicked(m) => {
                    ctx.violate("returns-a-form-per-function", ev, "panic", format!("{} panicked: {}", desc(), m));
                    return;
                }
            };
            if !ctx.check("returns-a-form-per-function", forms.len() == fs.len(), ev, "count", || format!("{} returned {} forms", desc(), forms.len())) {
                return;
            }
            let mut used: HashSet<Cube> = HashSet::new();
            let mut xors = 0i64;
            let mut valid = true;
            for (j, e) in forms.iter().enumerate() {
                let denotes = (0..size).all(|m| e.value(m) == ((fm[j] >> m) & 1 == 1));
                valid &= ctx.check("denotes-function", denotes && e.num_vars() == n, ev, "denotes", || format!("{}: output {} is {} which is not the function", desc(), j, e));
                // a cube used twice in one output cancels but is paid: count as the form is written
                for c in e.cubes() {
                    used.insert(*c);
                }
                xors += std::cmp::max(0, e.num_cubes() as i64 - 1);
            }
            if !valid {
                return;
            }
            let cost = cube_cost(&used, ac) + xc * xors;
            let (opt, expanded) = optimum_esop(n, &fm, ac, xc);
            ctx.bump("oracle-states-expanded", expanded);
            if fs.len() >= 2 {
                let sep: i64 = fm.iter().map(|f| optimum_esop(n, &[*f], ac, xc).0).sum();
                if opt < sep {
                    ctx.cell_only("sharing-strictly-cheaper|esop");
                }
            }
            assert!(cost >= opt, "harness: oracle optimum {} above the cost {} of a valid form ({})", opt, cost, desc());
            ctx.check("minimum-cost", cost == opt, ev, "cost", || format!("{}: returned forms {:?} cost {} but the optimum is {}", desc(), forms.iter().map(|e| e.to_string()).collect::<Vec<_>>(), cost, opt));
        }
        other => panic!("harness: unknown op {}", other),
    }
}

/// A term of a returned form, reduced to what the cost model and the semantics need.
#[derive(Clone, Copy, PartialEq, Eq, Hash, Debug)]
struct Term {
    ecube: bool,
    a: u32,
    b: u32,
    sat: Mask,
    lits: usize,
}

fn form_cost(form: &[Vec<Term>], ac: i64, xc: i64, oc: i64) -> i64 {
    let mut used: HashSet<Term> = HashSet::new();
    let mut ors = 0i64;
    for out in form {
        for t in out {
            used.insert(*t);
        }
        ors += std::cmp::max(0, out.len() as i64 - 1);
    }
    used.iter().map(|t| if t.ecube { xc } else { ac } * gates(t.lits)).sum::<i64>() + oc * ors
}

fn covers(out: &[Term], f: Mask) -> bool {
    out.iter().fold(0 as Mask, |m, t| m | t.sat) == f
}

/// A strictly cheaper valid form one step away (a term deleted from an output, a literal dropped from a cube, a
/// term replaced by a term already used elsewhere), if there is one: a minimum-cost form has none.
fn local_improvement(n: usize, form: &[Vec<Term>], fm: &[Mask], ac: i64, xc: i64, oc: i64) -> Option<(String, i64)> {
    let base = form_cost(form, ac, xc, oc);
    let mut all_used: Vec<Term> = form.iter().flatten().copied().collect::<HashSet<Term>>().into_iter().collect();
    all_used.sort_by_key(|t| (t.ecube, t.a, t.b));
    for j in 0..form.len() {
        for k in 0..form[j].len() {
            // delete
            let mut f2: Vec<Vec<Term>> = form.to_vec();
            f2[j].remove(k);
            if covers(&f2[j], fm[j]) {
                let c = form_cost(&f2, ac, xc, oc);
                if c < base {
                    return Some((format!("delete term {:?} from output {}", form[j][k], j), c));
                }
            }
            // drop one literal of a cube
            let t = form[j][k];
            if !t.ecube {
                for v in 0..n {
                    let bit = 1u32 << v;
                    if (t.a | t.b) & bit == 0 {
                        continue;
                    }
                    let c2 = CubeM::new(t.a & !bit, t.b & !bit);
                    let s = sat_mask(n, |a| c2.sat(a));
                    if s & !fm[j] != 0 {
                        continue;
                    }
                    let mut f2: Vec<Vec<Term>> = form.to_vec();
                    f2[j][k] = Term { ecube: false, a: c2.pos, b: c2.neg, sat: s, lits: c2.lits() };
                    let c = form_cost(&f2, ac, xc, oc);
                    if c < base {
                        return Some((format!("drop x{} from term {:?} of output {}", v, t, j), c));
                    }
                }
            }
            // replace by a term that is used anyway
            for u in &all_used {
                if *u == t || u.sat & !fm[j] != 0 {
                    continue;
                }
                let mut f2: Vec<Vec<Term>> = form.to_vec();
                f2[j][k] = *u;
                if covers(&f2[j], fm[j]) {
                    let c = form_cost(&f2, ac, xc, oc);
                    if c < base {
                        return Some((format!("replace term {:?} of output {} by the shared term {:?}", t, j, u), c));
                    }
                }
            }
        }
    }
    None
}

/// ESOP: cost of a multi-output form (distinct cubes paid once, one XOR gate per extra cube of an output).
fn esop_form_cost(form: &[Vec<Term>], ac: i64, xc: i64) -> i64 {
    let mut used: HashSet<Term> = HashSet::new();
    let mut xors = 0i64;
    for out in form {
        for t in out {
            used.insert(*t);
        }
        xors += std::cmp::max(0, out.len() as i64 - 1);
    }
    used.iter().map(|t| ac * gates(t.lits)).sum::<i64>() + xc * xors
}

/// A strictly cheaper valid ESOP form one step away: up to two cubes of one output replaced by up to two cubes
/// (any of the 3^n, so also cubes other outputs already pay for) with the same XOR.  A minimum-cost form has none.
fn esop_local_improvement(n: usize, form: &[Vec<Term>], ac: i64, xc: i64) -> Option<(String, i64)> {
    let base = esop_form_cost(form, ac, xc);
    let all: Vec<Term> = all_cubes(n)
        .iter()
        .map(|c| Term { ecube: false, a: c.pos, b: c.neg, sat: sat_mask(n, |a| c.sat(a)), lits: c.lits() })
        .collect();
    for j in 0..form.len() {
        let l = &form[j];
        // sets S of one or two cubes of this output
        let mut subsets: Vec<Vec<usize>> = (0..l.len()).map(|i| vec![i]).collect();
        for i in 0..l.len() {
            for k in i + 1..l.len() {
                subsets.push(vec![i, k]);
            }
        }
        for s in subsets {
            let target = s.iter().fold(0 as Mask, |m, i| m ^ l[*i].sat);
            let rest: Vec<Term> = l.iter().enumerate().filter(|(i, _)| !s.contains(i)).map(|(_, t)| *t).collect();
            let mut try_with = |repl: &[Term]| -> Option<(String, i64)> {
                let mut f2: Vec<Vec<Term>> = form.to_vec();
                f2[j] = rest.clone();
                f2[j].extend_from_slice(repl);
                let c = esop_form_cost(&f2, ac, xc);
                if c < base {
                    Some((format!("in output {} replace {:?} by {:?}", j, s.iter().map(|i| l[*i]).collect::<Vec<_>>(), repl), c))
                } else {
                    None
                }
            };
            if target == 0 {
                if let Some(r) = try_with(&[]) {
                    return Some(r);
                }
            }
            for (x, a) in all.iter().enumerate() {
                if a.sat == target {
                    if let Some(r) = try_with(&[*a]) {
                        return Some(r);
                    }
                }
                for b in all.iter().skip(x + 1) {
                    if a.sat ^ b.sat == target {
                        if let Some(r) = try_with(&[*a, *b]) {
                            return Some(r);
                        }
                    }
                }
            }
        }
    }
    None
}

/// ESOP instances beyond the exact oracle (n = 4 with several outputs): validity, no cheaper form one step away,
/// dominance across cost pairs.
fn exec_esop_dense(ctx: &mut Ctx, ev: &Ev) {
    let n = ev.n;
    let fs: Vec<Lut> = ev.tabs.iter().map(|t| Lut::from_blocks(n, t)).collect();
    let fm: Vec<Mask> = ev.tabs.iter().map(|t| fmask(n, t)).collect();
    let pairs: Vec<(i64, i64)> = ev.ints.chunks(3).map(|c| (c[0] as i64, c[1] as i64)).collect();
    ctx.event(&format!("esop-dense|n={}|outputs={}", n, fs.len()), ev, true);
    let size = 1usize << n;
    let desc = |t: &(i64, i64)| format!("esop-dense n={} functions={:?} costs(and={},xor={})", n, fs.iter().map(|f| f.to_string()).collect::<Vec<_>>(), t.0, t.1);
    let mut forms: Vec<Vec<Vec<Term>>> = Vec::new();
    for t in &pairs {
        let got: Vec<Esop> = match guard(|| optimize_esop_mip(&fs, t.0 as i32, t.1 as i32)) {
            Outcome::Returned(v) => v,
            Outcome::Panicked(m) => {
                ctx.violate("returns-a-form-per-function", ev, "panic", format!("{} panicked: {}", desc(t), m));
                return;
            }
        };
        if !ctx.check("returns-a-form-per-function", got.len() == fs.len(), ev, "count", || format!("{} returned {} forms", desc(t), got.len())) {
            return;
        }
        let mut form: Vec<Vec<Term>> = Vec::new();
        for (j, e) in got.iter().enumerate() {
            let denotes = (0..size).all(|m| e.value(m) == ((fm[j] >> m) & 1 == 1));
            if !ctx.check("denotes-function", denotes && e.num_vars() == n, ev, "denotes", || format!("{}: output {} is {} which is not the function", desc(t), j, e)) {
                return;
            }
            let mut out: Vec<Term> = e
                .cubes()
                .iter()
                .map(|c| {
                    let m = CubeM::of(c);
                    Term { ecube: false, a: m.pos, b: m.neg, sat: sat_mask(n, |a| m.sat(a)), lits: m.lits() }
                })
                .collect();
            out.sort_by_key(|t| (t.a, t.b));
            form.push(out);
        }
        ctx.checked("minimum-cost", 1);
        if let Some((what, c)) = esop_local_improvement(n, &form, t.0, t.1) {
            let base = esop_form_cost(&form, t.0, t.1);
            ctx.violate("minimum-cost", ev, "local-improvement", format!("{}: the returned forms cost {} but a valid form of cost {} is one step away ({}): {:?}", desc(t), base, c, what,
                got.iter().map(|e| e.to_string()).collect::<Vec<_>>()));
        }
        forms.push(form);
    }
    for (i, t) in pairs.iter().enumerate() {
        let own = esop_form_cost(&forms[i], t.0, t.1);
        for (k, other) in forms.iter().enumerate() {
            let c = esop_form_cost(other, t.0, t.1);
            ctx.checked("minimum-cost", 1);
            if c < own {
                ctx.violate("minimum-cost", ev, "dominated-by-the-answer-to-another-triple", format!(
                    "{}: the returned forms cost {}, the forms returned for costs {:?} cost {} under these costs", desc(t), own, pairs[k], c));
            }
        }
    }
}

/// Dense multi-output instances (beyond the reach of the exact oracle): the same instance under several cost
/// triples.  Monitors: validity of every returned form; no strictly cheaper neighbour (`local_improvement`); and
/// dominance across triples — the form returned for triple t must not cost more, under t, than the form returned
/// for another triple (every returned form is a valid form for every triple).  Both are necessary conditions of
/// "the total cost is the minimum over all such two-level forms".
fn exec_dense(ctx: &mut Ctx, ev: &Ev) {
    let n = ev.n;
    let sopes = ev.op == "sopes-dense";
    let fs: Vec<Lut> = ev.tabs.iter().map(|t| Lut::from_blocks(n, t)).collect();
    let fm: Vec<Mask> = ev.tabs.iter().map(|t| fmask(n, t)).collect();
    let triples: Vec<(i64, i64, i64)> = ev.ints.chunks(3).map(|c| (c[0] as i64, c[1] as i64, c[2] as i64)).collect();
    ctx.event(&format!("{}|n={}|outputs={}", ev.op, n, fs.len()), ev, true);
    let size = 1usize << n;
    let desc = |t: &(i64, i64, i64)| format!("{} n={} functions={:?} costs(and={},xor={},or={})", ev.op, n, fs.iter().map(|f| f.to_string()).collect::<Vec<_>>(), t.0, t.1, t.2);
    let mut forms: Vec<Vec<Vec<Term>>> = Vec::new();
    for t in &triples {
        let r: Outcome<Vec<(Sop, Soes)>> = guard(|| {
            if sopes {
                optimize_sopes_mip(&fs, t.0 as i32, t.1 as i32, t.2 as i32)
            } else {
                optimize_sop_mip(&fs, t.0 as i32, t.2 as i32).into_iter().map(|s| (s, Soes::zero(n))).collect()
            }
        });
        let got = match r {
            Outcome::Returned(v) => v,
            Outcome::Panicked(m) => {
                ctx.violate("returns-a-form-per-function", ev, "panic", format!("{} panicked: {}", desc(t), m));
                return;
            }
        };
        if !ctx.check("returns-a-form-per-function", got.len() == fs.len(), ev, "count", || format!("{} returned {} forms", desc(t), got.len())) {
            return;
        }
        let mut form: Vec<Vec<Term>> = Vec::new();
        for (j, (sop, soes)) in got.iter().enumerate() {
            let denotes = (0..size).all(|m| (sop.value(m) || soes.value(m)) == ((fm[j] >> m) & 1 == 1));
            let mut out: Vec<Term> = Vec::new();
            for c in sop.cubes() {
                let m = CubeM::of(c);
                out.push(Term { ecube: false, a: m.pos, b: m.neg, sat: sat_mask(n, |a| m.sat(a)), lits: m.lits() });
            }
            for c in soes.cubes() {
                let m = EcubeM::of(c);
                out.push(Term { ecube: true, a: m.vars, b: m.xnor as u32, sat: sat_mask(n, |a| m.sat(a)), lits: m.vars.count_ones() as usize });
            }
            let implicants = out.iter().all(|t| t.sat & !fm[j] == 0) && sop.cubes().iter().all(|c| !c.is_zero());
            if !ctx.check("denotes-function", denotes && sop.num_vars() == n && soes.num_vars() == n, ev, "denotes", || format!("{}: output {} is {} | {} which is not the function", desc(t), j, sop, soes))
                || !ctx.check("terms-are-implicants", implicants, ev, "implicant", || format!("{}: output {} uses a term that is not an implicant: {} | {}", desc(t), j, sop, soes))
            {
                return;
            }
            out.sort_by_key(|t| (t.ecube, t.a, t.b));
            form.push(out);
        }
        ctx.checked("minimum-cost", 1);
        if let Some((what, c)) = local_improvement(n, &form, &fm, t.0, t.1, t.2) {
            let base = form_cost(&form, t.0, t.1, t.2);
            ctx.violate("minimum-cost", ev, "local-improvement", format!("{}: the returned forms cost {} but a valid form of cost {} is one step away ({}): {:?}", desc(t), base, c, what,
                got.iter().map(|(s, e)| format!("{} | {}", s, e)).collect::<Vec<_>>()));
        }
        forms.push(form);
    }
    for (i, t) in triples.iter().enumerate() {
        let own = form_cost(&forms[i], t.0, t.1, t.2);
        for (k, other) in forms.iter().enumerate() {
            // an Soes part is only a legal answer for the sopes problem; all forms here come from the same problem
            let c = form_cost(other, t.0, t.1, t.2);
            ctx.checked("minimum-cost", 1);
            if c < own {
                ctx.violate("minimum-cost", ev, "dominated-by-the-answer-to-another-triple", format!(
                    "{}: the returned forms cost {}, the forms returned for costs {:?} cost {} under these costs", desc(t), own, triples[k], c));
            }
        }
        if own >= 100 {
            ctx.cell_only("dense|total-cost>=100");
        }
    }
}

fn mk(op: &str, n: usize, fs: &[u64], costs: (i64, i64, i64)) -> Ev {
    let mut ev = Ev::new(op, "mip", n).int64(costs.0 as u64).int64(costs.1 as u64).int64(costs.2 as u64);
    for f in fs {
        ev = ev.tab(&[*f]);
    }
    ev
}

fn main() {
    silence_panics();
    let cli = Cli::parse();
    let mut ctx = cli.ctx("C18");
    if let Some(ev) = cli.replay_event() {
        exec(&mut ctx, &ev);
        std::process::exit(vmon::ctx::report_replay(&ctx));
    }
    let thorough = ctx.thorough();
    let seed = cli.seed;
    // all 27 cost triples of {1,2,3}^3 in both tiers; the quick tier gives most work items ONE triple, rotating
    // through the 27 (the rotation starts at a seed-dependent offset), the thorough tier gives them all
    let triples: Vec<(i64, i64, i64)> = {
        let mut v = Vec::new();
        for a in 1..=3 {
            for x in 1..=3 {
                for o in 1..=3 {
                    v.push((a, x, o));
                }
            }
        }
        v
    };
    let rot = (seed as usize) % triples.len();
    // work items: (op, n, functions, costs)
    let mut rng = Rng::new(seed ^ 0xc18);
    let mut items: Vec<Ev> = Vec::new();
    let ops = ["sop", "sopes", "esop"];
    for n in 0..=2usize {
        let count: u64 = 1u64 << (1u64 << n);
        for x in 0..count {
            for (ti, t) in triples.iter().enumerate() {
                for op in ops {
                    // single output: every function with every triple
                    items.push(mk(op, n, &[x], *t));
                    // two outputs: every pair, triples rotated over the pairs in quick
                    for y in 0..count {
                        if thorough || (x as usize * 7 + y as usize * 3 + ti + rot) % triples.len() == 0 {
                            items.push(mk(op, n, &[x, y], *t));
                        }
                    }
                }
            }
        }
    }
    for x in 0..256u64 {
        for (ti, t) in triples.iter().enumerate() {
            for op in ops {
                if thorough || (x as usize + ti + rot) % triples.len() == 0 {
                    items.push(mk(op, 3, &[x], *t));
                }
                // the same function listed twice / three times (outputs that coincide): every function of n = 3
                if op != "esop" {
                    items.push(mk(op, 3, &[x, x], *t));
                    if thorough || (x as usize * 5 + ti + rot) % triples.len() == 0 {
                        items.push(mk(op, 3, &[x, x, x], *t));
                    }
                }
            }
        }
    }
    let samples = if thorough { 1500 } else { 40 };
    for k in 0..samples {
        let t = *rng.pick(&triples);
        let op = ops[k % 3];
        items.push(mk(op, 3, &[rng.next_u64() & 0xff, rng.next_u64() & 0xff], t));
        // related outputs share more
        let f = rng.next_u64() & 0xff;
        let g = f ^ (1u64 << rng.below(8)) | (rng.next_u64() & rng.next_u64() & 0xff);
        items.push(mk(ops[(k + 1) % 3], 3, &[f, g & 0xff], t));
        if k % 2 == 0 {
            items.push(mk(op, 4, &[rng.next_u64() & 0xffff], t));
        }
        let n3 = rng.range(1, 2);
        let m3 = (1u64 << (1u64 << n3)) - 1;
        items.push(mk(op, n3, &[rng.next_u64() & m3, rng.next_u64() & m3, rng.next_u64() & m3], t));
    }
    // sparse multi-output lists for the covering optimizers: every output is the OR of 1..3 cubes of a small
    // shared pool (so that sharing a cube that is prime in no output can pay off); the oracle's state space is
    // 2^(sum of the on-set sizes), kept <= 2^16.  n = 3 with 3 outputs, n = 4 with 2 and 3 outputs.
    let sparse = if thorough { 4500 } else { 90 };
    for k in 0..sparse {
        let (n, outs) = [(4usize, 2usize), (3, 3), (4, 3)][k % 3];
        let t = *rng.pick(&triples);
        let cubes = all_cubes(n);
        let fs: Vec<u64> = loop {
            let pool: Vec<CubeM> = (0..rng.range(2, 4))
                .map(|_| loop {
                    let c = *rng.pick(&cubes);
                    if c.lits() >= 2 {
                        break c;
                    }
                })
                .collect();
            let fs: Vec<u64> = (0..outs)
                .map(|_| {
                    let mut f = 0u64;
                    for _ in 0..rng.range(1, 3) {
                        let c = rng.pick(&pool);
                        f |= sat_mask(n, |a| c.sat(a)) as u64;
                    }
                    // sometimes one extra minterm
                    if rng.chance(1, 3) {
                        f |= 1u64 << rng.below(1 << n);
                    }
                    f
                })
                .collect();
            let total: u32 = fs.iter().map(|f| f.count_ones()).sum();
            if total <= 16 && fs.iter().all(|f| *f != 0) {
                break fs;
            }
        };
        items.push(mk(["sop", "sopes"][k % 2], n, &fs, t));
        // the same sizes with a planted shared cube S that is prime in no output: output j = S | N_j where
        // N_j is S with one literal flipped and another one dropped (so S is absorbed by a larger implicant of
        // every output, yet sharing S between the outputs can be cheaper than covering each output by primes)
        let kk = if n == 3 { 3 } else { rng.range(3, 4) };
        let mut vars: Vec<usize> = (0..n).collect();
        rng.shuffle(&mut vars);
        let vars = &vars[..kk];
        let mut sc = CubeM::new(0, 0);
        for v in vars {
            if rng.bool() {
                sc.pos |= 1 << v;
            } else {
                sc.neg |= 1 << v;
            }
        }
        let fs2: Vec<u64> = (0..outs)
            .map(|j| {
                let x = vars[j % kk];
                let y = vars[(j + 1 + rng.below(kk - 1)) % kk];
                let y = if y == x { vars[(j + 1) % kk] } else { y };
                let mut nb = sc;
                // flip x
                if nb.pos & (1 << x) != 0 {
                    nb.pos &= !(1u32 << x);
                    nb.neg |= 1 << x;
                } else {
                    nb.neg &= !(1u32 << x);
                    nb.pos |= 1 << x;
                }
                // drop y
                nb.pos &= !(1u32 << y);
                nb.neg &= !(1u32 << y);
                let mut f = (sat_mask(n, |a| sc.sat(a)) | sat_mask(n, |a| nb.sat(a))) as u64;
                if rng.chance(1, 5) {
                    f |= 1u64 << rng.below(1 << n);
                }
                f
            })
            .collect();
        if fs2.iter().map(|f| f.count_ones()).sum::<u32>() <= 18 {
            items.push(mk(["sopes", "sop"][k % 2], n, &fs2, t));
        }
    }
    // algebraically related outputs: [b1 | b2, b1, b2], [b1 & b2, b1, b2], [b1 ^ b2, b1, b2] for all pairs of
    // symmetric functions of 3 variables (exactly-k, at-least-k, not-all-equal, parity, ...) and for random sparse
    // pairs: one output can then be cheapest as the OR of many small cubes that the other outputs already pay for
    {
        let sym: Vec<u64> = (0..16u64).map(|c| sat_mask(3, |a| (c >> (a as u64).count_ones()) & 1 == 1) as u64).collect();
        let and_gt_or: Vec<(i64, i64, i64)> = triples.iter().copied().filter(|t| t.0 > t.2).collect();
        let mut k = 0usize;
        let mut push_related = |items: &mut Vec<Ev>, b1: u64, b2: u64, rng: &mut Rng| {
            for (j, f0) in [b1 | b2, b1 & b2, b1 ^ b2].into_iter().enumerate() {
                let fs = [f0, b1, b2];
                let total: u32 = fs.iter().map(|f| f.count_ones()).sum();
                if fs.iter().any(|f| *f == 0) || total > 14 || (j > 0 && !thorough && k % 3 != 0) {
                    continue;
                }
                k += 1;
                let mut order = fs.to_vec();
                if rng.bool() {
                    order.rotate_left(1);
                }
                if thorough {
                    for t in &triples {
                        items.push(mk(["sop", "sopes"][k % 2], 3, &order, *t));
                    }
                } else {
                    items.push(mk("sop", 3, &order, and_gt_or[(k + rot) % and_gt_or.len()]));
                    items.push(mk(["sop", "sopes"][k % 2], 3, &order, triples[(k * 5 + rot) % triples.len()]));
                }
            }
        };
        for b1 in &sym {
            for b2 in &sym {
                if b1 < b2 {
                    push_related(&mut items, *b1, *b2, &mut rng);
                }
            }
        }
        for _ in 0..if thorough { 600 } else { 30 } {
            let b1 = rng.next_u64() & rng.next_u64() & 0xff;
            let b2 = rng.next_u64() & rng.next_u64() & 0xff;
            push_related(&mut items, b1, b2, &mut rng);
        }
    }
    // dense instances (random lists up to n = 4 with 1..3 outputs, as the property quantifies them): beyond the
    // exact oracle; each instance under 3 cost triples, one of them with and = 3 and a unit or/xor cost (large
    // totals, forms that differ by a single gate)
    let dense = if thorough { 400000 } else { 3000 };
    for k in 0..dense {
        let n = if k % 4 == 0 { 3 } else { 4 };
        let outs = if k % 3 == 0 { 2 } else { 3 };
        let mask = (1u64 << (1u64 << n)) - 1;
        let fs: Vec<u64> = (0..outs)
            .map(|_| loop {
                let f = match rng.below(3) {
                    0 => rng.next_u64(),
                    1 => rng.next_u64() | rng.next_u64(),
                    _ => rng.next_u64() & rng.next_u64(),
                } & mask;
                if f != 0 {
                    break f;
                }
            })
            .collect();
        let heavy = [(3i64, 1i64, 1i64), (3, 2, 1), (3, 1, 2), (3, 3, 1), (3, 1, 3), (3, 2, 2)][rng.below(6)];
        let ts = [heavy, *rng.pick(&triples), *rng.pick(&triples)];
        let mut ev = Ev::new(["sopes-dense", "sop-dense"][(k % 5 == 4) as usize], "mip", n);
        for t in ts {
            ev = ev.int64(t.0 as u64).int64(t.1 as u64).int64(t.2 as u64);
        }
        for f in &fs {
            ev = ev.tab(&[*f]);
        }
        items.push(ev);
    }
    // ESOP lists of n = 4 with 2..3 outputs (n = 3 with 3): XORs of a few minterms (far apart, so that one output is
    // cheapest as the XOR of full minterms another output pays for), sparse and random functions
    let edense = if thorough { 300 } else { 12 };
    for k in 0..edense {
        let n = if k % 5 == 0 { 3 } else { 4 };
        let outs = if n == 3 { 3 } else if thorough { 2 + k % 2 } else { 2 };
        let size = 1u64 << n;
        let mask = (1u64 << size) - 1;
        let pool: Vec<u64> = (0..rng.range(2, 4)).map(|_| 1u64 << rng.below(size as usize)).collect();
        let fs: Vec<u64> = (0..outs)
            .map(|_| loop {
                // sparse only: the parity MIP of a dense 4-input list can take minutes
                let f = match rng.below(4) {
                    0..=2 => (0..rng.range(1, 3)).fold(0u64, |f, _| f ^ *rng.pick(&pool)),
                    _ => rng.next_u64() & rng.next_u64() & rng.next_u64() & rng.next_u64(),
                } & mask;
                if f != 0 {
                    break f;
                }
            })
            .collect();
        let mut ev = Ev::new("esop-dense", "mip", n);
        for _ in 0..2 {
            let t = *rng.pick(&triples);
            ev = ev.int64(t.0 as u64).int64(t.1 as u64).int64(0);
        }
        for f in &fs {
            ev = ev.tab(&[*f]);
        }
        items.push(ev);
    }
    rng.shuffle(&mut items);
    let per = 64usize;
    let shards = (items.len() + per - 1) / per;
    ctx.bump("work-items", items.len() as u64);
    run_sharded(&mut ctx, cli.threads, shards, |ctx, k| {
        for ev in items.iter().skip(k * per).take(per) {
            exec(ctx, ev);
        }
    });
    ctx.exhaustive.insert("n<=2: every single function with every cost triple".into(), true);
    if thorough {
        ctx.exhaustive.insert("n<=2: every pair of functions with every cost triple; n=3: every single function with every cost triple".into(), true);
    }
    // hidden-state monitor: sampled events of all shards again, mixed, on one thread (ctx::run_mix)
    run_mix(&mut ctx, seed, |c, e| exec(c, e));
    let mut required: Vec<String> = Vec::new();
    for op in ops {
        for n in 0..=2 {
            required.push(format!("{}|n={}|outputs=1", op, n));
            required.push(format!("{}|n={}|outputs=2", op, n));
        }
        required.push(format!("{}|n=3|outputs=1", op));
        required.push(format!("{}|n=3|outputs=2", op));
        if op != "esop" {
            required.push(format!("{}-dense|n=4|outputs=3", op));
        } else {
            required.push("esop-dense|n=4|outputs=2".into());
        }
        if op != "esop" {
            required.push(format!("{}|n=3|outputs=3", op));
        }
        required.push(format!("{}|n=4|outputs=1", op));
        if op != "esop" {
            // sparse multi-output lists (covering optimizers only: the ESOP search space is not bounded by the on-sets)
            required.push(format!("{}|n=4|outputs=2", op));
            required.push(format!("{}|n=3|outputs=3", op));
            required.push(format!("{}|n=4|outputs=3", op));
        }
        required.push(format!("sharing-strictly-cheaper|{}", op));
        if !ctx.cells.keys().any(|c| c.starts_with(&format!("{}|", op)) && c.ends_with("outputs=3")) {
            required.push(format!("{}|n=2|outputs=3", op));
        }
    }
    cli.finish(&ctx, &required, RULE);
}
