//! Miniature of the C19 workload for Miri (UB + data-race interpreter): 4 threads released together
//! draw random tables of several sizes through rand's thread-local generator; every draw goes through
//! the well-formedness and word-independence monitors.  Miri reports undefined behaviour or a data
//! race reachable through `random()` by aborting with an error.

use std::sync::{Arc, Barrier};

use volute::{Lut, Lut0, Lut3, Lut6, Lut7, Lut9};

fn well_formed(n: usize, b: &[u64]) -> bool {
    let size = 1usize << n;
    b.len() == std::cmp::max(1, size / 64) && (size >= 64 || b[0] >> size == 0)
}

fn main() {
    let threads = 4;
    let barrier = Arc::new(Barrier::new(threads));
    let handles: Vec<_> = (0..threads)
        .map(|t| {
            let b = barrier.clone();
            std::thread::spawn(move || {
                b.wait();
                let mut draws = 0usize;
                let mut firsts: Vec<Vec<u64>> = Vec::new();
                for round in 0..3 {
                    for n in [0usize, 1, 3, 5, 6, 7, 9] {
                        let l = Lut::random(n);
                        assert!(well_formed(n, l.blocks()), "malformed Lut::random({})", n);
                        if n >= 7 {
                            let w = l.blocks();
                            assert!(!w.windows(2).all(|p| p[0] == p[1]), "all words equal");
                        }
                        if round == 0 && n == 9 {
                            firsts.push(l.blocks().to_vec());
                        }
                        draws += 1;
                    }
                    assert!(well_formed(0, Lut0::random().blocks()));
                    assert!(well_formed(3, Lut3::random().blocks()));
                    assert!(well_formed(6, Lut6::random().blocks()));
                    let l7 = Lut7::random();
                    assert!(well_formed(7, l7.blocks()) && l7.blocks()[0] != l7.blocks()[1]);
                    assert!(well_formed(9, Lut9::random().blocks()));
                    draws += 5;
                }
                (t, draws, firsts)
            })
        })
        .collect();
    let mut total = 0;
    let mut all_firsts = Vec::new();
    for h in handles {
        let (_, d, f) = h.join().unwrap();
        total += d;
        all_firsts.extend(f);
    }
    // threads are independent: the first 512-bit draws of the threads are pairwise distinct
    for i in 0..all_firsts.len() {
        for j in (i + 1)..all_firsts.len() {
            assert!(all_firsts[i] != all_firsts[j], "two threads drew the same table");
        }
    }
    println!("MIRI-OK draws={} threads={}", total, threads);
}
