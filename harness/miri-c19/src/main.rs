fn main() {}
