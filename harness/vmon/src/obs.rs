//! The bridge from a real value to the reference model.  It reads the exported block view bit by
//! bit *and* `value(m)` for every assignment, and requires the two views to agree, so that
//! `value`/`get_bit` are themselves under observation.

use crate::ctx::{guard, Ctx, Ev, Outcome};
use crate::model::Model;
use crate::tbl::Tbl;

/// Well-formedness of the block view for n variables; Err(description) otherwise.
pub fn well_formed(n: usize, blocks: &[u64]) -> Result<(), String> {
    let size = 1usize << n;
    let want = std::cmp::max(1, size / 64);
    if blocks.len() != want {
        return Err(format!("{} blocks, expected {}", blocks.len(), want));
    }
    if size < 64 {
        for p in size..64 {
            if (blocks[0] >> p) % 2 == 1 {
                return Err(format!("bit {} set beyond 2^{}", p, n));
            }
        }
    }
    Ok(())
}

/// Observe a value produced by the library: representation invariant + both read views.
/// Violations are reported under monitor "repr"/"value-view" with key `what`.
pub fn observe<T: Tbl>(ctx: &mut Ctx, ev: &Ev, what: &str, t: &T, n: usize) -> Option<Model> {
    let nv = t.nv();
    if !ctx.check("repr", nv == n, ev, &format!("{}:num_vars", what), || {
        format!("{}: num_vars() = {} but {} expected", what, nv, n)
    }) {
        return None;
    }
    let blocks = t.t_blocks().to_vec();
    let wf = well_formed(n, &blocks);
    ctx.check("repr", wf.is_ok(), ev, &format!("{}:blocks", what), || {
        format!(
            "{}: malformed block view ({}) blocks={}",
            what,
            wf.clone().unwrap_err(),
            crate::ctx::hex_of_blocks(&blocks)
        )
    });
    let size = 1usize << n;
    if blocks.len() * 64 < size {
        return None;
    }
    let by_blocks = Model::from_blocks(n, &blocks);
    let by_value = match guard(|| (0..size).map(|m| t.t_value(m)).collect::<Vec<bool>>()) {
        Outcome::Returned(v) => v,
        Outcome::Panicked(msg) => {
            ctx.violate(
                "value-view",
                ev,
                &format!("{}:panic", what),
                format!("{}: value(m) panicked on an in-range assignment: {}", what, msg),
            );
            return Some(by_blocks);
        }
    };
    let same = by_value == by_blocks.bits;
    ctx.check("value-view", same, ev, &format!("{}:mismatch", what), || {
        format!("{}: value(m) disagrees with the block view", what)
    });
    Some(Model { n, bits: by_value })
}

/// Cheap variant for hot loops: the block view only (still checks well-formedness).
pub fn observe_blocks<T: Tbl>(ctx: &mut Ctx, ev: &Ev, what: &str, t: &T, n: usize) -> Option<Model> {
    let blocks = t.t_blocks();
    let wf = well_formed(n, blocks);
    if !ctx.check("repr", wf.is_ok() && t.nv() == n, ev, &format!("{}:blocks", what), || {
        format!(
            "{}: malformed value (num_vars {} / {:?}) blocks={}",
            what,
            t.nv(),
            wf,
            crate::ctx::hex_of_blocks(blocks)
        )
    }) && blocks.len() * 64 < (1usize << n)
    {
        return None;
    }
    Some(Model::from_blocks(n, blocks))
}

/// Build the real value for a model (guarded; a panic here is reported).  Half of the time through
/// `from_blocks`, otherwise through another construction route chosen by the event's digest (`Tbl::t_via_route`:
/// clone, clone_from / clone_into / Vec::clone_from over a value of another size, the other table type, the
/// printed form), so that every check also runs on values with a history.  The route must give the value
/// `from_blocks` gives (monitor `construction-route`).
pub fn realize<T: Tbl>(ctx: &mut Ctx, ev: &Ev, n: usize, blocks: &[u64]) -> Option<T> {
    let route = ev.digest() ^ blocks.iter().fold(0x9e37_79b9_7f4a_7c15u64, |h, w| (h ^ *w).wrapping_mul(0x0100_0000_01b3).rotate_left(23));
    match guard(|| (T::t_from_blocks(n, blocks), T::t_via_route(n, blocks, route))) {
        Outcome::Returned((direct, (t, name))) => {
            ctx.check("construction-route", t == direct && t.nv() == direct.nv() && t.t_blocks() == direct.t_blocks(), ev, name, || {
                format!("a value of {} variables built through {} is not the value from_blocks builds: num_vars {} blocks {} (expected {})",
                    n, name, t.nv(), crate::ctx::hex_of_blocks(t.t_blocks()), crate::ctx::hex_of_blocks(direct.t_blocks()))
            });
            Some(t)
        }
        Outcome::Panicked(msg) => {
            ctx.violate(
                "from_blocks",
                ev,
                "panic",
                format!("from_blocks panicked on well-formed blocks: {}", msg),
            );
            None
        }
    }
}

/// Std-trait routes to equality and order of a value type (derived or hand-written `PartialEq`, `Eq`,
/// `PartialOrd`, `Ord`, `Hash`, `Clone`): given whether `a` and `b` *mean* the same thing, every route has to
/// agree — operators, `cmp`/`partial_cmp`, hashing, set collections, sorting, `min`/`max`, `clone`/`clone_from`.
/// Returns the name of the first route that disagrees.
pub fn eq_ord_hash_routes<T>(a: &T, b: &T, same: bool) -> Result<usize, &'static str>
where
    T: Eq + Ord + std::hash::Hash + Clone,
{
    use std::cmp::Ordering;
    use std::collections::{BTreeSet, HashSet};
    use std::hash::Hasher;
    let h = |x: &T| {
        let mut s = std::collections::hash_map::DefaultHasher::new();
        x.hash(&mut s);
        s.finish()
    };
    let c = a.cmp(b);
    let checks: [(&'static str, bool); 16] = [
        ("==", (a == b) == same),
        ("!=", (a != b) == !same),
        ("cmp-equal-iff-same", (c == Ordering::Equal) == same),
        ("cmp-antisymmetric", b.cmp(a) == c.reverse()),
        ("partial_cmp", a.partial_cmp(b) == Some(c)),
        ("<", (a < b) == (c == Ordering::Less)),
        ("<=", (a <= b) == (c != Ordering::Greater)),
        (">", (a > b) == (c == Ordering::Greater)),
        (">=", (a >= b) == (c != Ordering::Less)),
        ("hash", !same || h(a) == h(b)),
        ("HashSet", [a.clone(), b.clone()].into_iter().collect::<HashSet<T>>().len() == if same { 1 } else { 2 }),
        ("BTreeSet", [a.clone(), b.clone()].into_iter().collect::<BTreeSet<T>>().len() == if same { 1 } else { 2 }),
        ("min/max", {
            let (lo, hi) = (a.clone().min(b.clone()), a.clone().max(b.clone()));
            lo.cmp(&hi) != Ordering::Greater && (lo == *a || lo == *b) && (hi == *a || hi == *b)
        }),
        ("sort", {
            let mut v = vec![a.clone(), b.clone(), a.clone()];
            v.sort();
            v.windows(2).all(|w| w[0].cmp(&w[1]) != Ordering::Greater)
        }),
        ("clone", a.clone() == *a && h(&a.clone()) == h(a)),
        ("clone_from", {
            let mut x = a.clone();
            x.clone_from(b);
            x == *b && h(&x) == h(b)
        }),
    ];
    for (name, ok) in checks.iter() {
        if !*ok {
            return Err(name);
        }
    }
    Ok(checks.len())
}

/// `Clone` routes: `clone`, `clone_from` into destinations of other shapes (other arity, larger / smaller
/// buffers), `Vec::clone_from`, `Option::clone_from`, `ToOwned::clone_into`.  After each, the destination must be
/// indistinguishable from the source: `==` and the caller's `same` (a semantic comparison: arity, terms, table).
pub fn clone_routes<T: Clone + PartialEq>(src: &T, dsts: &[T], same: &dyn Fn(&T, &T) -> bool) -> Result<usize, String> {
    let mut n = 0;
    let c = src.clone();
    n += 1;
    if c != *src || !same(&c, src) {
        return Err("clone()".into());
    }
    for (k, d) in dsts.iter().enumerate() {
        let mut x = d.clone();
        x.clone_from(src);
        n += 1;
        if x != *src || !same(&x, src) {
            return Err(format!("clone_from into destination #{}", k));
        }
        let mut v = vec![d.clone(), d.clone()];
        v.clone_from(&vec![src.clone(), src.clone()]);
        n += 1;
        if v.iter().any(|e| e != src || !same(e, src)) {
            return Err(format!("Vec::clone_from over destination #{}", k));
        }
        let mut o = Some(d.clone());
        o.clone_from(&Some(src.clone()));
        n += 1;
        if o.as_ref().map_or(true, |e| e != src || !same(e, src)) {
            return Err(format!("Option::clone_from over destination #{}", k));
        }
        let mut y = d.clone();
        src.clone_into(&mut y);
        n += 1;
        if y != *src || !same(&y, src) {
            return Err(format!("clone_into destination #{}", k));
        }
    }
    Ok(n)
}

/// Caller errors as injected faults: one call with an INVALID argument (out-of-range variable or assignment,
/// operands of different sizes, a list of tables of mixed sizes), expected to panic and not judged here (C17
/// does that), made right before a valid event.  The valid event is then judged as usual: a library that leaves
/// thread-local or shared state half-updated when it unwinds shows up there.
pub fn poison<T: Tbl>(n: usize, blocks: &[u64], salt: u64) {
    use volute::Lut;
    let other = if n == 0 { 1 } else { n - 1 };
    let _ = guard(|| {
        // not the event's own table (a leftover copy of it could pass for a duplicate), a scrambled one
        let mask = crate::gen::low_mask(n);
        let alt: Vec<u64> = blocks.iter().enumerate().map(|(k, w)| (w ^ 0x6996_9669_9669_6996u64.rotate_left(k as u32 * 7)) & if k == 0 { mask } else { !0 }).collect();
        let t = T::t_from_blocks(n, &alt);
        let d = Lut::from_blocks(n, &alt);
        let o = Lut::nth_var(std::cmp::max(other, 1), 0);
        match salt % 8 {
            0 => drop(t.t_flip(n + 1 + (salt >> 8) as usize % 70)),
            1 => drop(t.t_swap(0, n + (salt >> 8) as usize % 3)),
            2 => drop(t.t_cofactors(n + (salt >> 8) as usize % 3)),
            3 => drop(t.t_value(1usize << n)),
            4 => drop(&d & &o),
            5 => drop(Lut::bdd_complexity(&[d.clone(), o, d])),
            6 => drop(Lut::from_cofactors(&d, &o, 0)),
            _ => drop(t.t_top_decomposition(n + 64)),
        }
    });
}
