//! The bridge from a real value to the reference model.  It reads the exported block view bit by
//! bit *and* `value(m)` for every assignment, and requires the two views to agree, so that
//! `value`/`get_bit` are themselves under observation.

use crate::ctx::{guard, Ctx, Ev, Outcome};
use crate::model::Model;
use crate::tbl::Tbl;

/// Well-formedness of the block view for n variables; Err(description) otherwise.
pub fn well_formed(n: usize, blocks: &[u64]) -> Result<(), String> {
    let size = 1usize << n;
    let want = std::cmp::max(1, size / 64);
    if blocks.len() != want {
        return Err(format!("{} blocks, expected {}", blocks.len(), want));
    }
    if size < 64 {
        for p in size..64 {
            if (blocks[0] >> p) % 2 == 1 {
                return Err(format!("bit {} set beyond 2^{}", p, n));
            }
        }
    }
    Ok(())
}

/// Observe a value produced by the library: representation invariant + both read views.
/// Violations are reported under monitor "repr"/"value-view" with key `what`.
pub fn observe<T: Tbl>(ctx: &mut Ctx, ev: &Ev, what: &str, t: &T, n: usize) -> Option<Model> {
    let nv = t.nv();
    if !ctx.check("repr", nv == n, ev, &format!("{}:num_vars", what), || {
        format!("{}: num_vars() = {} but {} expected", what, nv, n)
    }) {
        return None;
    }
    let blocks = t.t_blocks().to_vec();
    let wf = well_formed(n, &blocks);
    ctx.check("repr", wf.is_ok(), ev, &format!("{}:blocks", what), || {
        format!(
            "{}: malformed block view ({}) blocks={}",
            what,
            wf.clone().unwrap_err(),
            crate::ctx::hex_of_blocks(&blocks)
        )
    });
    let size = 1usize << n;
    if blocks.len() * 64 < size {
        return None;
    }
    let by_blocks = Model::from_blocks(n, &blocks);
    let by_value = match guard(|| (0..size).map(|m| t.t_value(m)).collect::<Vec<bool>>()) {
        Outcome::Returned(v) => v,
        Outcome::Panicked(msg) => {
            ctx.violate(
                "value-view",
                ev,
                &format!("{}:panic", what),
                format!("{}: value(m) panicked on an in-range assignment: {}", what, msg),
            );
            return Some(by_blocks);
        }
    };
    let same = by_value == by_blocks.bits;
    ctx.check("value-view", same, ev, &format!("{}:mismatch", what), || {
        format!("{}: value(m) disagrees with the block view", what)
    });
    Some(Model { n, bits: by_value })
}

/// Cheap variant for hot loops: the block view only (still checks well-formedness).
pub fn observe_blocks<T: Tbl>(ctx: &mut Ctx, ev: &Ev, what: &str, t: &T, n: usize) -> Option<Model> {
    let blocks = t.t_blocks();
    let wf = well_formed(n, blocks);
    if !ctx.check("repr", wf.is_ok() && t.nv() == n, ev, &format!("{}:blocks", what), || {
        format!(
            "{}: malformed value (num_vars {} / {:?}) blocks={}",
            what,
            t.nv(),
            wf,
            crate::ctx::hex_of_blocks(blocks)
        )
    }) && blocks.len() * 64 < (1usize << n)
    {
        return None;
    }
    Some(Model::from_blocks(n, blocks))
}

/// Build the real value for a model through `from_blocks` (guarded; a panic here is reported).
pub fn realize<T: Tbl>(ctx: &mut Ctx, ev: &Ev, n: usize, blocks: &[u64]) -> Option<T> {
    match guard(|| T::t_from_blocks(n, blocks)) {
        Outcome::Returned(t) => Some(t),
        Outcome::Panicked(msg) => {
            ctx.violate(
                "from_blocks",
                ev,
                "panic",
                format!("from_blocks panicked on well-formed blocks: {}", msg),
            );
            None
        }
    }
}
