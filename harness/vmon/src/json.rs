//! Minimal JSON value, writer and parser (no external crates in the harness).

use std::collections::BTreeMap;
use std::fmt::Write;

#[derive(Clone, Debug, PartialEq)]
pub enum Json {
    Null,
    Bool(bool),
    Int(i128),
    Num(f64),
    Str(String),
    Arr(Vec<Json>),
    Obj(BTreeMap<String, Json>),
}

impl Json {
    pub fn obj() -> Json {
        Json::Obj(BTreeMap::new())
    }
    pub fn arr() -> Json {
        Json::Arr(Vec::new())
    }
    pub fn s(x: impl Into<String>) -> Json {
        Json::Str(x.into())
    }
    pub fn i(x: impl TryInto<i128>) -> Json {
        Json::Int(x.try_into().ok().expect("int fits"))
    }
    pub fn set(mut self, k: &str, v: Json) -> Json {
        if let Json::Obj(m) = &mut self {
            m.insert(k.to_string(), v);
        } else {
            panic!("set on non-object");
        }
        self
    }
    pub fn put(&mut self, k: &str, v: Json) {
        if let Json::Obj(m) = self {
            m.insert(k.to_string(), v);
        } else {
            panic!("put on non-object");
        }
    }
    pub fn push(&mut self, v: Json) {
        if let Json::Arr(a) = self {
            a.push(v);
        } else {
            panic!("push on non-array");
        }
    }
    pub fn get(&self, k: &str) -> Option<&Json> {
        match self {
            Json::Obj(m) => m.get(k),
            _ => None,
        }
    }
    pub fn as_str(&self) -> Option<&str> {
        match self {
            Json::Str(s) => Some(s),
            _ => None,
        }
    }
    pub fn as_i128(&self) -> Option<i128> {
        match self {
            Json::Int(i) => Some(*i),
            _ => None,
        }
    }
    pub fn as_u64(&self) -> Option<u64> {
        self.as_i128().and_then(|i| u64::try_from(i).ok())
    }
    pub fn as_usize(&self) -> Option<usize> {
        self.as_i128().and_then(|i| usize::try_from(i).ok())
    }
    pub fn as_arr(&self) -> Option<&[Json]> {
        match self {
            Json::Arr(a) => Some(a),
            _ => None,
        }
    }
    pub fn as_bool(&self) -> Option<bool> {
        match self {
            Json::Bool(b) => Some(*b),
            _ => None,
        }
    }

    pub fn write(&self, out: &mut String) {
        match self {
            Json::Null => out.push_str("null"),
            Json::Bool(b) => out.push_str(if *b { "true" } else { "false" }),
            Json::Int(i) => {
                let _ = write!(out, "{}", i);
            }
            Json::Num(f) => {
                if f.is_finite() {
                    let _ = write!(out, "{}", f);
                    if f.fract() == 0.0 && !out.ends_with(|c: char| c == 'e' || c == '.') {
                        // keep it a JSON number either way; integers print like "3"
                    }
                } else {
                    out.push_str("null");
                }
            }
            Json::Str(s) => write_str(s, out),
            Json::Arr(a) => {
                out.push('[');
                for (i, v) in a.iter().enumerate() {
                    if i > 0 {
                        out.push(',');
                    }
                    v.write(out);
                }
                out.push(']');
            }
            Json::Obj(m) => {
                out.push('{');
                for (i, (k, v)) in m.iter().enumerate() {
                    if i > 0 {
                        out.push(',');
                    }
                    write_str(k, out);
                    out.push(':');
                    v.write(out);
                }
                out.push('}');
            }
        }
    }

    pub fn to_string(&self) -> String {
        let mut s = String::new();
        self.write(&mut s);
        s
    }

    pub fn parse(text: &str) -> Result<Json, String> {
        let mut p = Parser {
            b: text.as_bytes(),
            i: 0,
        };
        p.ws();
        let v = p.value()?;
        p.ws();
        if p.i != p.b.len() {
            return Err(format!("trailing data at {}", p.i));
        }
        Ok(v)
    }
}

fn write_str(s: &str, out: &mut String) {
    out.push('"');
    for c in s.chars() {
        match c {
            '"' => out.push_str("\\\""),
            '\\' => out.push_str("\\\\"),
            '\n' => out.push_str("\\n"),
            '\r' => out.push_str("\\r"),
            '\t' => out.push_str("\\t"),
            c if (c as u32) < 0x20 => {
                let _ = write!(out, "\\u{:04x}", c as u32);
            }
            c => out.push(c),
        }
    }
    out.push('"');
}

struct Parser<'a> {
    b: &'a [u8],
    i: usize,
}

impl<'a> Parser<'a> {
    fn ws(&mut self) {
        while self.i < self.b.len() && (self.b[self.i] as char).is_ascii_whitespace() {
            self.i += 1;
        }
    }
    fn eat(&mut self, c: u8) -> Result<(), String> {
        if self.i < self.b.len() && self.b[self.i] == c {
            self.i += 1;
            Ok(())
        } else {
            Err(format!("expected '{}' at {}", c as char, self.i))
        }
    }
    fn lit(&mut self, s: &str, v: Json) -> Result<Json, String> {
        if self.b[self.i..].starts_with(s.as_bytes()) {
            self.i += s.len();
            Ok(v)
        } else {
            Err(format!("bad literal at {}", self.i))
        }
    }
    fn value(&mut self) -> Result<Json, String> {
        if self.i >= self.b.len() {
            return Err("unexpected end".into());
        }
        match self.b[self.i] {
            b'n' => self.lit("null", Json::Null),
            b't' => self.lit("true", Json::Bool(true)),
            b'f' => self.lit("false", Json::Bool(false)),
            b'"' => Ok(Json::Str(self.string()?)),
            b'[' => {
                self.i += 1;
                let mut a = Vec::new();
                self.ws();
                if self.i < self.b.len() && self.b[self.i] == b']' {
                    self.i += 1;
                    return Ok(Json::Arr(a));
                }
                loop {
                    self.ws();
                    a.push(self.value()?);
                    self.ws();
                    if self.i < self.b.len() && self.b[self.i] == b',' {
                        self.i += 1;
                    } else {
                        self.eat(b']')?;
                        return Ok(Json::Arr(a));
                    }
                }
            }
            b'{' => {
                self.i += 1;
                let mut m = BTreeMap::new();
                self.ws();
                if self.i < self.b.len() && self.b[self.i] == b'}' {
                    self.i += 1;
                    return Ok(Json::Obj(m));
                }
                loop {
                    self.ws();
                    let k = self.string()?;
                    self.ws();
                    self.eat(b':')?;
                    self.ws();
                    let v = self.value()?;
                    m.insert(k, v);
                    self.ws();
                    if self.i < self.b.len() && self.b[self.i] == b',' {
                        self.i += 1;
                    } else {
                        self.eat(b'}')?;
                        return Ok(Json::Obj(m));
                    }
                }
            }
            _ => self.number(),
        }
    }
    fn number(&mut self) -> Result<Json, String> {
        let st = self.i;
        let mut float = false;
        while self.i < self.b.len() {
            let c = self.b[self.i];
            if c.is_ascii_digit() || c == b'-' || c == b'+' {
                self.i += 1;
            } else if c == b'.' || c == b'e' || c == b'E' {
                float = true;
                self.i += 1;
            } else {
                break;
            }
        }
        let s = std::str::from_utf8(&self.b[st..self.i]).map_err(|e| e.to_string())?;
        if s.is_empty() {
            return Err(format!("unexpected character at {}", st));
        }
        if float {
            s.parse::<f64>().map(Json::Num).map_err(|e| e.to_string())
        } else {
            s.parse::<i128>().map(Json::Int).map_err(|e| e.to_string())
        }
    }
    fn string(&mut self) -> Result<String, String> {
        self.eat(b'"')?;
        let mut out: Vec<u8> = Vec::new();
        loop {
            if self.i >= self.b.len() {
                return Err("unterminated string".into());
            }
            let c = self.b[self.i];
            self.i += 1;
            match c {
                b'"' => break,
                b'\\' => {
                    if self.i >= self.b.len() {
                        return Err("bad escape".into());
                    }
                    let e = self.b[self.i];
                    self.i += 1;
                    match e {
                        b'n' => out.push(b'\n'),
                        b'r' => out.push(b'\r'),
                        b't' => out.push(b'\t'),
                        b'b' => out.push(8),
                        b'f' => out.push(12),
                        b'u' => {
                            let h = std::str::from_utf8(&self.b[self.i..self.i + 4])
                                .map_err(|e| e.to_string())?;
                            let cp = u32::from_str_radix(h, 16).map_err(|e| e.to_string())?;
                            self.i += 4;
                            let ch = char::from_u32(cp).unwrap_or('\u{fffd}');
                            let mut buf = [0u8; 4];
                            out.extend_from_slice(ch.encode_utf8(&mut buf).as_bytes());
                        }
                        other => out.push(other),
                    }
                }
                c => out.push(c),
            }
        }
        String::from_utf8(out).map_err(|e| e.to_string())
    }
}

#[cfg(test)]
mod tests {
    use super::*;
    #[test]
    fn roundtrip() {
        let j = Json::obj()
            .set("a", Json::i(3))
            .set("b", Json::Arr(vec![Json::s("x\"é\n"), Json::Null, Json::Bool(true)]))
            .set("c", Json::Num(1.5));
        let t = j.to_string();
        assert_eq!(Json::parse(&t).unwrap(), j);
    }
}
