//! Workload generators: function families engineered for the storage regimes of the kernels,
//! index generators, exhaustive enumerators.  Generators produce well-formed block vectors.

use crate::model::Model;
use crate::rng::Rng;

pub fn words(n: usize) -> usize {
    std::cmp::max(1, (1usize << n) / 64)
}

pub fn low_mask(n: usize) -> u64 {
    if n >= 6 {
        !0u64
    } else {
        (1u64 << (1u64 << n)) - 1
    }
}

#[derive(Clone, Copy, Debug, PartialEq, Eq, Hash, PartialOrd, Ord)]
pub enum Fam {
    Random,
    Sparse,
    Dense,
    Minterm,
    Maxterm,
    Const,
    Projection,
    Symmetric,
    LowOnes,
    HighOnes,
    Vacuous,
    PlantedSym,
    Shannon,
    NearConst,
    SmallSupport,
    NearVacuous,
    Staircase,
    FewMinterms,
    GatedPartSym,
    OneHotWords,
    NearPairSym,
}

impl Fam {
    pub const ALL: [Fam; 21] = [
        Fam::Random,
        Fam::Sparse,
        Fam::Dense,
        Fam::Minterm,
        Fam::Maxterm,
        Fam::Const,
        Fam::Projection,
        Fam::Symmetric,
        Fam::LowOnes,
        Fam::HighOnes,
        Fam::Vacuous,
        Fam::PlantedSym,
        Fam::Shannon,
        Fam::NearConst,
        Fam::SmallSupport,
        Fam::NearVacuous,
        Fam::Staircase,
        Fam::FewMinterms,
        Fam::GatedPartSym,
        Fam::OneHotWords,
        Fam::NearPairSym,
    ];
    pub fn name(self) -> &'static str {
        match self {
            Fam::Random => "random",
            Fam::Sparse => "sparse",
            Fam::Dense => "dense",
            Fam::Minterm => "minterm",
            Fam::Maxterm => "maxterm",
            Fam::Const => "const",
            Fam::Projection => "projection",
            Fam::Symmetric => "symmetric",
            Fam::LowOnes => "low-ones",
            Fam::HighOnes => "high-ones",
            Fam::Vacuous => "vacuous",
            Fam::PlantedSym => "planted-symmetry",
            Fam::Shannon => "shannon",
            Fam::NearConst => "near-const",
            Fam::SmallSupport => "small-support",
            Fam::NearVacuous => "near-vacuous",
            Fam::Staircase => "staircase",
            Fam::FewMinterms => "few-minterms",
            Fam::GatedPartSym => "gated-partially-symmetric",
            Fam::OneHotWords => "one-hot-words",
            Fam::NearPairSym => "near-pair-symmetric",
        }
    }
}

fn set(b: &mut [u64], m: usize, v: bool) {
    if v {
        b[m / 64] |= 1u64 << (m % 64);
    } else {
        b[m / 64] &= !(1u64 << (m % 64));
    }
}

fn get(b: &[u64], m: usize) -> bool {
    (b[m / 64] >> (m % 64)) & 1 == 1
}

pub fn random_blocks(n: usize, rng: &mut Rng) -> Vec<u64> {
    let mut v: Vec<u64> = (0..words(n)).map(|_| rng.next_u64()).collect();
    v[0] &= low_mask(n);
    v
}

/// density ~ 1/16 (and-ing four random words)
fn sparse_blocks(n: usize, rng: &mut Rng) -> Vec<u64> {
    let mut v: Vec<u64> = (0..words(n))
        .map(|_| rng.next_u64() & rng.next_u64() & rng.next_u64() & rng.next_u64())
        .collect();
    v[0] &= low_mask(n);
    v
}

pub fn gen(f: Fam, n: usize, rng: &mut Rng) -> Vec<u64> {
    let w = words(n);
    let size = 1usize << n;
    match f {
        Fam::Random => random_blocks(n, rng),
        Fam::Sparse => sparse_blocks(n, rng),
        Fam::Dense => {
            let mut v = sparse_blocks(n, rng);
            for x in v.iter_mut() {
                *x = !*x;
            }
            v[0] &= low_mask(n);
            v
        }
        Fam::Minterm => {
            let mut v = vec![0u64; w];
            set(&mut v, rng.below(size), true);
            v
        }
        Fam::Maxterm => {
            let mut v = vec![!0u64; w];
            v[0] = low_mask(n);
            if n >= 6 {
                for x in v.iter_mut() {
                    *x = !0;
                }
            }
            set(&mut v, rng.below(size), false);
            v
        }
        Fam::Const => Model::constant(n, rng.bool()).to_blocks(),
        Fam::Projection => {
            if n == 0 {
                return Model::constant(0, rng.bool()).to_blocks();
            }
            let m = Model::var(n, rng.below(n));
            if rng.bool() {
                m.not().to_blocks()
            } else {
                m.to_blocks()
            }
        }
        Fam::Symmetric => Model::symmetric(n, rng.next_u64()).to_blocks(),
        Fam::LowOnes => {
            // the j lowest words all ones (carry chains), the rest random
            let mut v = random_blocks(n, rng);
            let j = rng.range(1, w);
            for x in v.iter_mut().take(j) {
                *x = !0u64;
            }
            v[0] &= if w == 1 { low_mask(n) } else { !0u64 };
            if w == 1 {
                // in-word: low k bits ones
                let bits = 1usize << n;
                let k = rng.range(1, bits);
                let mut r = random_blocks(n, rng)[0];
                for m in 0..k {
                    r |= 1u64 << m;
                }
                v[0] = r & low_mask(n);
            }
            v
        }
        Fam::HighOnes => {
            let mut v = random_blocks(n, rng);
            let j = rng.range(1, w);
            for x in v.iter_mut().rev().take(j) {
                *x = !0u64;
            }
            v[0] &= low_mask(n);
            v
        }
        Fam::Vacuous => {
            // independent of 1..n-1 randomly chosen variables
            let mut v = random_blocks(n, rng);
            if n == 0 {
                return v;
            }
            let k = rng.range(1, n);
            for _ in 0..k {
                let i = rng.below(n);
                for m in 0..size {
                    if m & (1 << i) != 0 {
                        let b = get(&v, m & !(1usize << i));
                        set(&mut v, m, b);
                    }
                }
            }
            v
        }
        Fam::PlantedSym => {
            // symmetric in a random subset of variables: value depends on the popcount inside the
            // subset and on the other variables
            if n < 2 {
                return random_blocks(n, rng);
            }
            let mut subset = 0usize;
            while (subset as u64).count_ones() < 2 {
                subset = rng.below(size);
            }
            let base = random_blocks(n, rng);
            let mut v = vec![0u64; w];
            for m in 0..size {
                // canonical representative: ones of the subset packed to its lowest positions
                let c = ((m & subset) as u64).count_ones() as usize;
                let mut rep = m & !subset;
                let mut left = c;
                for i in 0..n {
                    if left > 0 && subset & (1 << i) != 0 {
                        rep |= 1 << i;
                        left -= 1;
                    }
                }
                let b = get(&base, rep);
                set(&mut v, m, b);
            }
            v
        }
        Fam::Shannon => shannon_blocks(n, rng, None),
        Fam::SmallSupport => {
            // a random function of 1..4 variables placed on chosen variables of the n (the others are
            // vacuous); the chosen variables are often adjacent and high (word-selecting) ones
            if n == 0 {
                return Model::constant(0, rng.bool()).to_blocks();
            }
            let k = std::cmp::min(n, rng.range(1, 4));
            let vars = pick_vars(n, k, rng);
            let g = rng.next_u64();
            small_support_blocks(n, &vars, g)
        }
        Fam::NearVacuous => {
            // independent of a variable except on one or two assignments (in the first, a middle or the last word)
            let mut v = random_blocks(n, rng);
            if n == 0 {
                return v;
            }
            let i = rng.below(n);
            for m in 0..size {
                if m & (1 << i) != 0 {
                    let b = get(&v, m & !(1usize << i));
                    set(&mut v, m, b);
                }
            }
            for _ in 0..rng.range(1, 2) {
                let pos = match rng.below(3) {
                    0 => rng.below(std::cmp::min(size, 64)),
                    1 => size - 1 - rng.below(std::cmp::min(size, 64)),
                    _ => rng.below(size),
                };
                let b = get(&v, pos);
                set(&mut v, pos, !b);
            }
            v
        }
        Fam::NearPairSym => {
            // symmetric in a pair of variables (a, b) except on a cube of the other variables: there the values at
            // (a=1,b=0) and (a=0,b=1) differ.  The cube fixes all but 0..2 of the other variables (usually to 1), so
            // the exception is a small, regularly repeated pattern — a near miss of a symmetry
            if n < 3 {
                return random_blocks(n, rng);
            }
            let vars = pick_vars(n, n, rng);
            let (a, b) = (vars[0], vars[1]);
            let mut v = random_blocks(n, rng);
            for m in 0..size {
                if (m >> a) & 1 == 0 && (m >> b) & 1 == 1 {
                    let src = (m | (1 << a)) & !(1 << b);
                    let bit = get(&v, src);
                    set(&mut v, m, bit);
                }
            }
            let free = rng.below(3);
            let fixed: Vec<usize> = vars[2..].iter().copied().take((n - 2).saturating_sub(free)).collect();
            let all_ones = rng.chance(2, 3);
            let pol: Vec<bool> = fixed.iter().map(|_| all_ones || rng.bool()).collect();
            for m in 0..size {
                let in_cube = fixed.iter().zip(pol.iter()).all(|(x, p)| ((m >> x) & 1 == 1) == *p);
                if in_cube && (m >> a) & 1 == 1 && (m >> b) & 1 == 0 {
                    let bit = get(&v, m);
                    set(&mut v, m, !bit);
                }
            }
            v
        }
        Fam::OneHotWords => {
            // every 64-bit word is one of: 0, all ones, a single bit (positions 0, 1, 31, 32, 62, 63 or random),
            // all ones but one bit, rarely random — the values at which shifts by the word size, trailing/leading
            // zero counts and carries behave specially
            let mut v = vec![0u64; w];
            for x in v.iter_mut() {
                let bit = match rng.below(4) {
                    0 => 63,
                    1 => *rng.pick(&[0usize, 1, 31, 32, 62]),
                    _ => rng.below(64),
                };
                *x = match rng.below(8) {
                    0 | 1 => 0,
                    2 => !0u64,
                    3 | 4 | 5 => 1u64 << bit,
                    6 => !(1u64 << bit),
                    _ => rng.next_u64(),
                };
            }
            if n < 6 {
                let bit = rng.below(size);
                v[0] = match rng.below(3) {
                    0 => 1u64 << bit,
                    1 => 1u64 << (size - 1),
                    _ => low_mask(n) & !(1u64 << bit),
                };
            }
            v[0] &= low_mask(n);
            v
        }
        Fam::FewMinterms => {
            // 2..6 true assignments that are images of one another under exchanges / complementations of a few
            // variables (so that a permutation or flip of variables maps minterms onto minterms), optionally with
            // one unrelated minterm, optionally complemented (few false assignments)
            let mut v = vec![0u64; w];
            if n == 0 {
                return Model::constant(0, rng.bool()).to_blocks();
            }
            let base = rng.below(size);
            let mut ms = vec![base];
            let k = rng.range(1, 5);
            for _ in 0..k {
                let src = *rng.pick(&ms);
                let i = rng.below(n);
                let j = rng.below(n);
                let m = match rng.below(3) {
                    0 => {
                        // exchange the values of variables i and j
                        let (bi, bj) = ((src >> i) & 1, (src >> j) & 1);
                        (src & !(1 << i) & !(1 << j)) | (bj << i) | (bi << j)
                    }
                    1 => src ^ (1 << i),
                    _ => src ^ (1 << i) ^ (1 << j),
                };
                ms.push(m);
            }
            if rng.chance(1, 4) {
                ms.push(rng.below(size));
            }
            for m in ms {
                set(&mut v, m, true);
            }
            if rng.chance(1, 3) {
                for m in 0..size {
                    let b = get(&v, m);
                    set(&mut v, m, !b);
                }
            }
            v
        }
        Fam::GatedPartSym => {
            // x_c ? g : h where one branch is a constant (x_c & g, x_c | g, ...) or symmetric in a pair of
            // variables while the other branch is not: symmetries that hold in one cofactor only
            if n < 3 {
                return random_blocks(n, rng);
            }
            let vars = pick_vars(n, 3, rng);
            let (c, a, b) = (vars[0], vars[1], vars[2]);
            let g = random_blocks(n, rng);
            let h_kind = rng.below(4);
            let mut h = random_blocks(n, rng);
            if h_kind >= 2 {
                // make h symmetric in (a, b): copy the value at (a=1,b=0) to (a=0,b=1)
                for m in 0..size {
                    if (m >> a) & 1 == 0 && (m >> b) & 1 == 1 {
                        let src = (m | (1 << a)) & !(1 << b);
                        let bit = get(&h, src);
                        set(&mut h, m, bit);
                    }
                }
            }
            let mut v = vec![0u64; w];
            let pol = rng.bool();
            for m in 0..size {
                let sel = ((m >> c) & 1 == 1) == pol;
                let bit = if sel {
                    get(&g, m)
                } else {
                    match h_kind {
                        0 => false,
                        1 => true,
                        _ => get(&h, m),
                    }
                };
                set(&mut v, m, bit);
            }
            v
        }
        Fam::Staircase => {
            // a packed run of ones: the integer 2^k - 1 (assignments 0..k true), optionally shifted up by a
            // whole number of bits or complemented — words that are exactly 0, all ones, or 2^j - 1
            let k = match rng.below(3) {
                0 => rng.below(size + 1),
                1 => std::cmp::min(size, 64 * rng.below(w + 1) + rng.below(2)),
                _ => rng.below(std::cmp::min(size, 64) + 1),
            };
            let shift = if rng.bool() { 0 } else { rng.below(size - k + 1) };
            let mut v = vec![0u64; w];
            for m in shift..shift + k {
                set(&mut v, m, true);
            }
            if rng.chance(1, 3) {
                for m in 0..size {
                    let b = get(&v, m);
                    set(&mut v, m, !b);
                }
            }
            v
        }
        Fam::NearConst => {
            let c = rng.bool();
            let mut v = Model::constant(n, c).to_blocks();
            let k = rng.range(1, 3);
            for _ in 0..k {
                let pos = match rng.below(4) {
                    0 => 0,
                    1 => size - 1,
                    _ => rng.below(size),
                };
                set(&mut v, pos, !c);
            }
            v
        }
    }
}

/// k distinct variables of 0..n: random, or a run of adjacent ones, often among the highest
pub fn pick_vars(n: usize, k: usize, rng: &mut Rng) -> Vec<usize> {
    let k = std::cmp::min(k, n);
    match rng.below(3) {
        0 => {
            let mut all: Vec<usize> = (0..n).collect();
            rng.shuffle(&mut all);
            all.truncate(k);
            all
        }
        1 => {
            // adjacent run ending at the top
            let mut v: Vec<usize> = (n - k..n).collect();
            rng.shuffle(&mut v);
            v
        }
        _ => {
            let start = rng.below(n - k + 1);
            let mut v: Vec<usize> = (start..start + k).collect();
            rng.shuffle(&mut v);
            v
        }
    }
}

/// The n-variable function g(x_vars[0], x_vars[1], ...) where bit j of the argument of g is x_vars[j]
/// and g is given as a truth table in the low 2^k bits of `g`.
pub fn small_support_blocks(n: usize, vars: &[usize], g: u64) -> Vec<u64> {
    let size = 1usize << n;
    let mut v = vec![0u64; words(n)];
    for m in 0..size {
        let mut a = 0usize;
        for (j, var) in vars.iter().enumerate() {
            if (m >> var) & 1 == 1 {
                a |= 1 << j;
            }
        }
        if (g >> a) & 1 == 1 {
            set(&mut v, m, true);
        }
    }
    v
}

/// All count masks of n variables (the 2^(n+1) symmetric functions), as block vectors.
pub fn all_symmetric(n: usize) -> impl Iterator<Item = Vec<u64>> {
    (0..(1u64 << (n + 1))).map(move |c| Model::symmetric(n, c).to_blocks())
}

/// A function assembled from a small pool of sub-functions of `level` variables placed in the
/// 2^(n-level) slots (forces shared sub-tables).  `pool` may be passed to share across functions.
pub fn shannon_blocks(n: usize, rng: &mut Rng, pool: Option<(&[Vec<bool>], usize)>) -> Vec<u64> {
    let size = 1usize << n;
    let mut v = vec![0u64; words(n)];
    if n == 0 {
        return Model::constant(0, rng.bool()).to_blocks();
    }
    let (own_pool, level);
    let (pool_ref, level_ref): (&[Vec<bool>], usize) = match pool {
        Some((p, l)) => (p, l),
        None => {
            level = rng.below(n);
            own_pool = make_pool(level, rng.range(2, 6), rng);
            (&own_pool, level)
        }
    };
    let sub = 1usize << level_ref;
    for slot in 0..(size / sub) {
        let p = rng.pick(pool_ref);
        let neg = rng.chance(1, 4);
        for k in 0..sub {
            set(&mut v, slot * sub + k, p[k] != neg);
        }
    }
    v
}

pub fn make_pool(level: usize, count: usize, rng: &mut Rng) -> Vec<Vec<bool>> {
    let sub = 1usize << level;
    (0..count)
        .map(|_| {
            let kind = rng.below(4);
            (0..sub)
                .map(|k| match kind {
                    0 => rng.bool(),
                    1 => (k as u64).count_ones() % 2 == 1,
                    2 => level > 0 && (k >> rng.below(level)) & 1 == 1,
                    _ => rng.chance(1, 8),
                })
                .collect()
        })
        .collect()
}

pub fn any_fam(n: usize, rng: &mut Rng) -> (Fam, Vec<u64>) {
    let f = *rng.pick(&Fam::ALL);
    (f, gen(f, n, rng))
}

/// All functions of n <= 4 variables as the block of their integer value.
pub fn all_small(n: usize) -> impl Iterator<Item = Vec<u64>> {
    assert!(n <= 4);
    let count: u64 = 1u64 << (1u64 << n);
    (0..count).map(|k| vec![k])
}

/// Index regime of a variable index: "lo" (inside a word) or "hi" (selects words).
pub fn regime1(i: usize) -> &'static str {
    if i < 6 {
        "lo"
    } else {
        "hi"
    }
}

pub fn regime2(i: usize, j: usize) -> &'static str {
    if i == j {
        "same"
    } else if i < 6 && j < 6 {
        "lo-lo"
    } else if i >= 6 && j >= 6 {
        "hi-hi"
    } else {
        "lo-hi"
    }
}
