//! One trait over the dynamic `Lut` and every `StaticLut<N, T>` so that workloads and monitors are
//! written once.  The trait only forwards to the public API of volute; nothing is computed here.

use std::fmt::{Binary, Debug, Display, LowerHex};
use std::hash::Hash;

use volute::{DecompositionType, Lut, StaticLut};

use crate::model::Class;

#[derive(Clone, Copy, PartialEq, Eq, Debug, Hash, PartialOrd, Ord)]
pub enum BinOp {
    And,
    Or,
    Xor,
}

impl BinOp {
    pub const ALL: [BinOp; 3] = [BinOp::And, BinOp::Or, BinOp::Xor];
    pub fn name(self) -> &'static str {
        match self {
            BinOp::And => "and",
            BinOp::Or => "or",
            BinOp::Xor => "xor",
        }
    }
    pub fn from_name(s: &str) -> Option<BinOp> {
        BinOp::ALL.iter().copied().find(|o| o.name() == s)
    }
    pub fn apply(self, a: bool, b: bool) -> bool {
        match self {
            BinOp::And => a && b,
            BinOp::Or => a || b,
            BinOp::Xor => a != b,
        }
    }
}

pub const NOT_FORMS: [&str; 4] = ["a.not()", "a.not_inplace()", "!&a", "!a"];
pub const BIN_FORMS: [&str; 8] = [
    "a.op(&b)",
    "a.op_inplace(&b)",
    "&a op &b",
    "&a op b",
    "a op &b",
    "a op b",
    "a op= &b",
    "a op= b",
];

pub const ALIAS_FORMS: [&str; 2] = ["a.op(&a)", "&a op &a"];

pub fn class_of(d: DecompositionType) -> Class {
    match d {
        DecompositionType::None => Class::None,
        DecompositionType::Independent => Class::Independent,
        DecompositionType::Identity => Class::Identity,
        DecompositionType::Negation => Class::Negation,
        DecompositionType::And => Class::And,
        DecompositionType::Or => Class::Or,
        DecompositionType::Le => Class::Le,
        DecompositionType::Lt => Class::Lt,
        DecompositionType::Xor => Class::Xor,
    }
}

pub trait Tbl:
    Sized + Clone + Eq + Ord + Hash + Debug + Display + LowerHex + Binary + Send + Sync + 'static
{
    const STATIC: bool;
    fn ty() -> &'static str {
        if Self::STATIC {
            "LutN"
        } else {
            "Lut"
        }
    }

    fn nv(&self) -> usize;
    fn t_num_bits(&self) -> usize;
    fn t_num_blocks(&self) -> usize;

    fn t_zero(n: usize) -> Self;
    fn t_one(n: usize) -> Self;
    fn t_default(n: usize) -> Self;
    fn t_nth_var(n: usize, i: usize) -> Self;
    fn t_parity(n: usize) -> Self;
    fn t_majority(n: usize) -> Self;
    fn t_threshold(n: usize, k: usize) -> Self;
    fn t_equals(n: usize, k: usize) -> Self;
    fn t_symmetric(n: usize, c: usize) -> Self;
    fn t_random(n: usize) -> Self;
    fn t_from_blocks(n: usize, b: &[u64]) -> Self;
    fn t_from_hex_string(n: usize, s: &str) -> Result<Self, ()>;
    /// The table `blocks` obtained through one of several construction routes (direct, `clone`, `clone_from`
    /// into a destination of another size, `Vec::clone_from`, `clone_into`, the other table type, the printed
    /// form): every route must give the value `from_blocks` gives.  Returns the value and the route's name.
    fn t_via_route(n: usize, blocks: &[u64], route: u64) -> (Self, &'static str);
    fn t_all_functions(n: usize) -> Box<dyn Iterator<Item = Self>>;
    fn t_iter_from(start: &Self) -> Box<dyn Iterator<Item = Self>>;
    /// an `Iterator`-method script (see iterprobe.rs) on the concrete iterator type, fresh or positioned
    fn t_iter_script(n: usize, start: Option<&Self>, script: &[(u64, u64)], expect: Option<&crate::iterprobe::Expect>) -> Vec<crate::iterprobe::Obs>;
    /// plain `next()` calls only: does the (fresh or positioned) iterator end within `limit` items?
    fn t_iter_ends_within(n: usize, start: Option<&Self>, limit: u128) -> bool;
    fn t_from_cofactors(c0: &Self, c1: &Self, i: usize) -> Self;
    fn t_bdd_complexity(l: &[Self]) -> usize;

    fn t_blocks(&self) -> &[u64];
    fn t_value(&self, m: usize) -> bool;
    fn t_get_bit(&self, m: usize) -> bool;
    fn t_set_value(&mut self, m: usize, v: bool);
    fn t_set_bit(&mut self, m: usize);
    fn t_unset_bit(&mut self, m: usize);

    fn t_flip_inplace(&mut self, i: usize);
    fn t_swap_inplace(&mut self, i: usize, j: usize);
    fn t_swap_adjacent_inplace(&mut self, i: usize);
    fn t_flip(&self, i: usize) -> Self;
    fn t_swap(&self, i: usize, j: usize) -> Self;
    fn t_swap_adjacent(&mut self, i: usize) -> Self;
    fn t_cofactors(&self, i: usize) -> (Self, Self);

    fn t_p_canon(&self) -> (Self, Vec<u8>);
    fn t_n_canon(&self) -> (Self, u32);
    fn t_npn_canon(&self) -> (Self, Vec<u8>, u32);

    fn t_top_decomposition(&self, i: usize) -> Class;
    fn t_is_pos_unate(&self, i: usize) -> bool;
    fn t_is_neg_unate(&self, i: usize) -> bool;

    fn t_to_hex_string(&self) -> String;
    fn t_to_bin_string(&self) -> String;

    /// One of the 4 syntactic forms of NOT (index into NOT_FORMS). Returns (result, a afterwards).
    fn t_not_form(form: usize, a: &Self) -> (Self, Self);
    /// One of the 8 syntactic forms of a binary operator. Returns (result, a afterwards, b afterwards),
    /// where "afterwards" is the operand when it was only borrowed, or a clone of the original
    /// when it was consumed (then there is nothing to observe).
    fn t_bin_form(op: BinOp, form: usize, a: &Self, b: &Self) -> (Self, Self, Self);
    /// The forms that can take the SAME object on both sides (index into ALIAS_FORMS): a.op(&a), &a op &a.
    fn t_bin_alias(op: BinOp, form: usize, a: &Self) -> Self;

    fn to_dyn(&self) -> Lut;
    fn try_from_dyn(l: Lut) -> Result<Self, ()>;
}

macro_rules! common_methods {
    () => {
        fn nv(&self) -> usize {
            self.num_vars()
        }
        fn t_num_bits(&self) -> usize {
            self.num_bits()
        }
        fn t_num_blocks(&self) -> usize {
            self.num_blocks()
        }
        fn t_blocks(&self) -> &[u64] {
            self.blocks()
        }
        fn t_value(&self, m: usize) -> bool {
            self.value(m)
        }
        fn t_get_bit(&self, m: usize) -> bool {
            self.get_bit(m)
        }
        fn t_set_value(&mut self, m: usize, v: bool) {
            self.set_value(m, v)
        }
        fn t_set_bit(&mut self, m: usize) {
            self.set_bit(m)
        }
        fn t_unset_bit(&mut self, m: usize) {
            self.unset_bit(m)
        }
        fn t_flip_inplace(&mut self, i: usize) {
            self.flip_inplace(i)
        }
        fn t_swap_inplace(&mut self, i: usize, j: usize) {
            self.swap_inplace(i, j)
        }
        fn t_swap_adjacent_inplace(&mut self, i: usize) {
            self.swap_adjacent_inplace(i)
        }
        fn t_flip(&self, i: usize) -> Self {
            self.flip(i)
        }
        fn t_swap(&self, i: usize, j: usize) -> Self {
            self.swap(i, j)
        }
        fn t_swap_adjacent(&mut self, i: usize) -> Self {
            self.swap_adjacent(i)
        }
        fn t_cofactors(&self, i: usize) -> (Self, Self) {
            self.cofactors(i)
        }
        fn t_from_cofactors(c0: &Self, c1: &Self, i: usize) -> Self {
            Self::from_cofactors(c0, c1, i)
        }
        fn t_bdd_complexity(l: &[Self]) -> usize {
            Self::bdd_complexity(l)
        }
        fn t_n_canon(&self) -> (Self, u32) {
            self.n_canonization()
        }
        fn t_top_decomposition(&self, i: usize) -> Class {
            class_of(self.top_decomposition(i))
        }
        fn t_is_pos_unate(&self, i: usize) -> bool {
            self.is_pos_unate(i)
        }
        fn t_is_neg_unate(&self, i: usize) -> bool {
            self.is_neg_unate(i)
        }
        fn t_to_hex_string(&self) -> String {
            self.to_hex_string()
        }
        fn t_to_bin_string(&self) -> String {
            self.to_bin_string()
        }
        fn t_not_form(form: usize, a: &Self) -> (Self, Self) {
            match form {
                0 => {
                    let r = a.not();
                    (r, a.clone())
                }
                1 => {
                    let mut x = a.clone();
                    x.not_inplace();
                    (x, a.clone())
                }
                2 => {
                    let x = a.clone();
                    let r = !&x;
                    (r, x)
                }
                3 => {
                    let x = a.clone();
                    let r = !x;
                    (r, a.clone())
                }
                _ => panic!("harness: bad NOT form"),
            }
        }
        fn t_bin_alias(op: BinOp, form: usize, a: &Self) -> Self {
            match (op, form) {
                (BinOp::And, 0) => a.and(a),
                (BinOp::Or, 0) => a.or(a),
                (BinOp::Xor, 0) => a.xor(a),
                (BinOp::And, 1) => a & a,
                (BinOp::Or, 1) => a | a,
                (BinOp::Xor, 1) => a ^ a,
                _ => panic!("harness: bad alias form"),
            }
        }
        fn t_bin_form(op: BinOp, form: usize, a: &Self, b: &Self) -> (Self, Self, Self) {
            let x = a.clone();
            let y = b.clone();
            match (op, form) {
                (BinOp::And, 0) => {
                    let r = x.and(&y);
                    (r, x, y)
                }
                (BinOp::Or, 0) => {
                    let r = x.or(&y);
                    (r, x, y)
                }
                (BinOp::Xor, 0) => {
                    let r = x.xor(&y);
                    (r, x, y)
                }
                (BinOp::And, 1) => {
                    let mut r = x.clone();
                    r.and_inplace(&y);
                    (r, x, y)
                }
                (BinOp::Or, 1) => {
                    let mut r = x.clone();
                    r.or_inplace(&y);
                    (r, x, y)
                }
                (BinOp::Xor, 1) => {
                    let mut r = x.clone();
                    r.xor_inplace(&y);
                    (r, x, y)
                }
                (BinOp::And, 2) => {
                    let r = &x & &y;
                    (r, x, y)
                }
                (BinOp::Or, 2) => {
                    let r = &x | &y;
                    (r, x, y)
                }
                (BinOp::Xor, 2) => {
                    let r = &x ^ &y;
                    (r, x, y)
                }
                (BinOp::And, 3) => {
                    let r = &x & y;
                    (r, x, b.clone())
                }
                (BinOp::Or, 3) => {
                    let r = &x | y;
                    (r, x, b.clone())
                }
                (BinOp::Xor, 3) => {
                    let r = &x ^ y;
                    (r, x, b.clone())
                }
                (BinOp::And, 4) => {
                    let r = x & &y;
                    (r, a.clone(), y)
                }
                (BinOp::Or, 4) => {
                    let r = x | &y;
                    (r, a.clone(), y)
                }
                (BinOp::Xor, 4) => {
                    let r = x ^ &y;
                    (r, a.clone(), y)
                }
                (BinOp::And, 5) => {
                    let r = x & y;
                    (r, a.clone(), b.clone())
                }
                (BinOp::Or, 5) => {
                    let r = x | y;
                    (r, a.clone(), b.clone())
                }
                (BinOp::Xor, 5) => {
                    let r = x ^ y;
                    (r, a.clone(), b.clone())
                }
                (BinOp::And, 6) => {
                    let mut r = x;
                    r &= &y;
                    (r, a.clone(), y)
                }
                (BinOp::Or, 6) => {
                    let mut r = x;
                    r |= &y;
                    (r, a.clone(), y)
                }
                (BinOp::Xor, 6) => {
                    let mut r = x;
                    r ^= &y;
                    (r, a.clone(), y)
                }
                (BinOp::And, 7) => {
                    let mut r = x;
                    r &= y;
                    (r, a.clone(), b.clone())
                }
                (BinOp::Or, 7) => {
                    let mut r = x;
                    r |= y;
                    (r, a.clone(), b.clone())
                }
                (BinOp::Xor, 7) => {
                    let mut r = x;
                    r ^= y;
                    (r, a.clone(), b.clone())
                }
                _ => panic!("harness: bad binary form"),
            }
        }
    };
}

impl Tbl for Lut {
    const STATIC: bool = false;
    common_methods!();
    fn t_zero(n: usize) -> Self {
        Lut::zero(n)
    }
    fn t_one(n: usize) -> Self {
        Lut::one(n)
    }
    fn t_default(n: usize) -> Self {
        assert_eq!(n, 0, "harness: Lut::default() has 0 variables");
        Lut::default()
    }
    fn t_nth_var(n: usize, i: usize) -> Self {
        Lut::nth_var(n, i)
    }
    fn t_parity(n: usize) -> Self {
        Lut::parity(n)
    }
    fn t_majority(n: usize) -> Self {
        Lut::majority(n)
    }
    fn t_threshold(n: usize, k: usize) -> Self {
        Lut::threshold(n, k)
    }
    fn t_equals(n: usize, k: usize) -> Self {
        Lut::equals(n, k)
    }
    fn t_symmetric(n: usize, c: usize) -> Self {
        Lut::symmetric(n, c)
    }
    fn t_random(n: usize) -> Self {
        Lut::random(n)
    }
    fn t_from_blocks(n: usize, b: &[u64]) -> Self {
        Lut::from_blocks(n, b)
    }
    fn t_from_hex_string(n: usize, s: &str) -> Result<Self, ()> {
        Lut::from_hex_string(n, s)
    }
    fn t_via_route(n: usize, blocks: &[u64], route: u64) -> (Self, &'static str) {
        let src = Lut::from_blocks(n, blocks);
        // destination sizes: mostly close to n (same block count for n <= 6), sometimes anything
        let other = match (route >> 8) % 4 {
            0 => ((route >> 12) % 15) as usize,
            1 => (n + 1) % 15,
            2 => n.saturating_sub(1),
            _ => ((route >> 12) % 7) as usize,
        };
        match route % 10 {
            0..=4 => (src, "from_blocks"),
            5 => (src.clone(), "clone"),
            6 => {
                let mut d = Lut::one(other);
                d.clone_from(&src);
                (d, "clone_from(into another size)")
            }
            7 => {
                let mut v = vec![Lut::zero(other), Lut::one(other)];
                v.clone_from(&vec![src.clone(), src]);
                (v.pop().unwrap(), "Vec::clone_from(over another size)")
            }
            8 => {
                let mut d = Lut::zero(other);
                src.clone_into(&mut d);
                (d, "clone_into(another size)")
            }
            _ => match Lut::from_hex_string(n, &src.to_hex_string()) {
                Ok(x) => (x, "from_hex_string(to_hex_string)"),
                Err(_) => (src, "from_blocks"),
            },
        }
    }
    fn t_all_functions(n: usize) -> Box<dyn Iterator<Item = Self>> {
        Box::new(Lut::all_functions(n))
    }
    fn t_iter_from(start: &Self) -> Box<dyn Iterator<Item = Self>> {
        Box::new(Lut::verif_iter_from(start))
    }
    fn t_iter_script(n: usize, start: Option<&Self>, script: &[(u64, u64)], expect: Option<&crate::iterprobe::Expect>) -> Vec<crate::iterprobe::Obs> {
        match start {
            None => crate::iterprobe::run_script(Lut::all_functions(n), script, expect),
            Some(s) => crate::iterprobe::run_script(Lut::verif_iter_from(s), script, expect),
        }
    }
    fn t_iter_ends_within(n: usize, start: Option<&Self>, limit: u128) -> bool {
        match start {
            None => crate::iterprobe::ends_within(Lut::all_functions(n), limit),
            Some(s) => crate::iterprobe::ends_within(Lut::verif_iter_from(s), limit),
        }
    }
    fn t_p_canon(&self) -> (Self, Vec<u8>) {
        self.p_canonization()
    }
    fn t_npn_canon(&self) -> (Self, Vec<u8>, u32) {
        self.npn_canonization()
    }
    fn to_dyn(&self) -> Lut {
        self.clone()
    }
    fn try_from_dyn(l: Lut) -> Result<Self, ()> {
        Ok(l)
    }
}

impl<const N: usize, const T: usize> Tbl for StaticLut<N, T> {
    const STATIC: bool = true;
    common_methods!();
    fn t_zero(n: usize) -> Self {
        assert_eq!(n, N, "harness: size dispatch");
        Self::zero()
    }
    fn t_one(n: usize) -> Self {
        assert_eq!(n, N, "harness: size dispatch");
        Self::one()
    }
    fn t_default(n: usize) -> Self {
        assert_eq!(n, N, "harness: size dispatch");
        Self::default()
    }
    fn t_nth_var(n: usize, i: usize) -> Self {
        assert_eq!(n, N, "harness: size dispatch");
        Self::nth_var(i)
    }
    fn t_parity(n: usize) -> Self {
        assert_eq!(n, N, "harness: size dispatch");
        Self::parity()
    }
    fn t_majority(n: usize) -> Self {
        assert_eq!(n, N, "harness: size dispatch");
        Self::majority()
    }
    fn t_threshold(n: usize, k: usize) -> Self {
        assert_eq!(n, N, "harness: size dispatch");
        Self::threshold(k)
    }
    fn t_equals(n: usize, k: usize) -> Self {
        assert_eq!(n, N, "harness: size dispatch");
        Self::equals(k)
    }
    fn t_symmetric(n: usize, c: usize) -> Self {
        assert_eq!(n, N, "harness: size dispatch");
        Self::symmetric(c)
    }
    fn t_random(n: usize) -> Self {
        assert_eq!(n, N, "harness: size dispatch");
        Self::random()
    }
    fn t_from_blocks(n: usize, b: &[u64]) -> Self {
        assert_eq!(n, N, "harness: size dispatch");
        Self::from_blocks(b)
    }
    fn t_from_hex_string(n: usize, s: &str) -> Result<Self, ()> {
        assert_eq!(n, N, "harness: size dispatch");
        Self::from_hex_string(s)
    }
    fn t_via_route(n: usize, blocks: &[u64], route: u64) -> (Self, &'static str) {
        assert_eq!(n, N, "harness: size dispatch");
        let src = Self::from_blocks(blocks);
        match route % 10 {
            0..=5 => (src, "from_blocks"),
            6 => {
                #[allow(clippy::clone_on_copy)]
                let c = src.clone();
                (c, "clone")
            }
            7 => {
                let mut d = Self::one();
                d.clone_from(&src);
                (d, "clone_from")
            }
            8 => match Self::try_from(Lut::from(src)) {
                Ok(x) => (x, "try_from(Lut::from)"),
                Err(_) => (src, "from_blocks"),
            },
            _ => match Self::from_hex_string(&src.to_hex_string()) {
                Ok(x) => (x, "from_hex_string(to_hex_string)"),
                Err(_) => (src, "from_blocks"),
            },
        }
    }
    fn t_all_functions(n: usize) -> Box<dyn Iterator<Item = Self>> {
        assert_eq!(n, N, "harness: size dispatch");
        Box::new(Self::all_functions())
    }
    fn t_iter_from(start: &Self) -> Box<dyn Iterator<Item = Self>> {
        Box::new(Self::verif_iter_from(start))
    }
    fn t_iter_script(n: usize, start: Option<&Self>, script: &[(u64, u64)], expect: Option<&crate::iterprobe::Expect>) -> Vec<crate::iterprobe::Obs> {
        assert_eq!(n, N, "harness: size dispatch");
        match start {
            None => crate::iterprobe::run_script(Self::all_functions(), script, expect),
            Some(s) => crate::iterprobe::run_script(Self::verif_iter_from(s), script, expect),
        }
    }
    fn t_iter_ends_within(n: usize, start: Option<&Self>, limit: u128) -> bool {
        assert_eq!(n, N, "harness: size dispatch");
        match start {
            None => crate::iterprobe::ends_within(Self::all_functions(), limit),
            Some(s) => crate::iterprobe::ends_within(Self::verif_iter_from(s), limit),
        }
    }
    fn t_p_canon(&self) -> (Self, Vec<u8>) {
        let (r, p) = self.p_canonization();
        (r, p.to_vec())
    }
    fn t_npn_canon(&self) -> (Self, Vec<u8>, u32) {
        let (r, p, m) = self.npn_canonization();
        (r, p.to_vec(), m)
    }
    fn to_dyn(&self) -> Lut {
        Lut::from(*self)
    }
    fn try_from_dyn(l: Lut) -> Result<Self, ()> {
        Self::try_from(l)
    }
}

/// Run `$body` with the type alias `$T` bound to the exported fixed-size type of `$n` variables.
#[macro_export]
macro_rules! with_static {
    ($n:expr, $T:ident => $body:expr) => {
        match $n {
            0 => {
                type $T = volute::Lut0;
                $body
            }
            1 => {
                type $T = volute::Lut1;
                $body
            }
            2 => {
                type $T = volute::Lut2;
                $body
            }
            3 => {
                type $T = volute::Lut3;
                $body
            }
            4 => {
                type $T = volute::Lut4;
                $body
            }
            5 => {
                type $T = volute::Lut5;
                $body
            }
            6 => {
                type $T = volute::Lut6;
                $body
            }
            7 => {
                type $T = volute::Lut7;
                $body
            }
            8 => {
                type $T = volute::Lut8;
                $body
            }
            9 => {
                type $T = volute::Lut9;
                $body
            }
            10 => {
                type $T = volute::Lut10;
                $body
            }
            11 => {
                type $T = volute::Lut11;
                $body
            }
            12 => {
                type $T = volute::Lut12;
                $body
            }
            other => panic!("harness: no exported fixed-size type for {} variables", other),
        }
    };
}

/// Run `$body` once with `$T = volute::Lut` and, when `$n <= 12`, once with the fixed-size type.
#[macro_export]
macro_rules! with_both {
    ($n:expr, $T:ident => $body:expr) => {{
        {
            type $T = volute::Lut;
            $body
        }
        if $n <= 12 {
            $crate::with_static!($n, $T => $body)
        }
    }};
}

/// Run `$body` with `$T` chosen by `$is_static`.
#[macro_export]
macro_rules! with_ty {
    ($is_static:expr, $n:expr, $T:ident => $body:expr) => {{
        if $is_static {
            $crate::with_static!($n, $T => $body)
        } else {
            type $T = volute::Lut;
            $body
        }
    }};
}

pub const MAX_STATIC: usize = 12;
