//! Scripts of `std::iter::Iterator` methods run on the library's `all_functions` iterators, and their model.
//!
//! The property (C08) describes the iterator as a sequence: every table once, in numeric order, then the end.
//! `next()` is only one way of reading a sequence; `nth`, `skip`, `step_by`, `take`, `count`, `last`, `min`,
//! `max`, `fold` and `size_hint` are the others, and a library may override any of them.  A script is a list of
//! `(kind, argument)` pairs applied to ONE iterator; the model executes the same script on a position (a 2^n-bit
//! number plus an "exhausted" flag) with plain arithmetic, so arguments near `usize::MAX` cost nothing there.
//! The runner is generic over the concrete iterator type so that overrides of by-value methods are reached too
//! (a `Box<dyn Iterator>` would only forward `next`, `nth` and `size_hint`).

use crate::tbl::Tbl;

pub const NEXT: u64 = 0;
pub const NTH: u64 = 1;
pub const SIZE_HINT: u64 = 2;
pub const SKIP_NEXT: u64 = 3;
pub const STEP_BY3: u64 = 4;
pub const TAKE_COUNT: u64 = 5;
pub const TAKE_MINMAX: u64 = 6;
pub const COUNT: u64 = 7; // terminal
pub const LAST: u64 = 8; // terminal
pub const FOLD: u64 = 9; // terminal
pub const NEXT_AFTER_END: u64 = 10;
pub const MIN: u64 = 11; // terminal, by value, only for iterators documented as increasing
pub const MAX: u64 = 12; // terminal, by value

pub fn kind_name(k: u64) -> &'static str {
    match k {
        NEXT => "next",
        NTH => "nth",
        SIZE_HINT => "size_hint",
        SKIP_NEXT => "skip.next",
        STEP_BY3 => "step_by.take3",
        TAKE_COUNT => "take.count",
        TAKE_MINMAX => "take.min/max",
        COUNT => "count",
        LAST => "last",
        FOLD => "fold",
        NEXT_AFTER_END => "next-after-end",
        MIN => "min",
        MAX => "max",
        _ => "?",
    }
}

#[derive(Clone, Debug, PartialEq, Eq)]
pub enum Obs {
    /// an item (its blocks) or the end
    Item(Option<Vec<u64>>),
    Items(Vec<Vec<u64>>),
    Num(u128),
    /// (lower, upper) as returned; the model side holds the true remaining count in `Remaining`
    Hint(usize, Option<usize>),
    Remaining(Option<u128>),
    /// first, last, min-is-first, max-is-last, strictly increasing by `Ord`
    MinMax(Option<(Vec<u64>, Vec<u64>, bool, bool, bool)>),
    /// count and xor of the low words of everything that was left
    Fold(u128, u64),
}

fn usz(k: u64) -> usize {
    k as usize
}

/// Run `script` on a concrete iterator of tables.
pub fn run_script<T: Tbl, I: Iterator<Item = T>>(it: I, script: &[(u64, u64)], expect: Option<&Expect>) -> Vec<Obs> {
    run_script_any(
        it,
        script,
        &|t: &T| t.t_blocks().to_vec(),
        Some(&|a: &T, b: &T| a.cmp(b)),
        expect,
        // `Iterator::min` / `Iterator::max` themselves (an override of them is only reached this way)
        Some(&|it: I, is_min: bool| if is_min { it.min() } else { it.max() }),
    )
}

/// What the model expects of a script: the observations, and for every step whether the sequence is already
/// exhausted before it.  Given to the runner so that it (1) stops at the first step that disagrees — what a broken
/// iterator does after that is of no interest and may not even return — and (2) before a step on an exhausted
/// sequence first polls `next()` twice (the second poll is a poll after `None`), which must give `None`: an iterator that starts again after its end is
/// reported there instead of being sent through a `count()` of 2^64 items.
pub struct Expect {
    pub obs: Vec<Obs>,
    pub exhausted_before: Vec<bool>,
    /// `count` / `last` / `fold` by value on an iterator that is already exhausted: run them only when a
    /// (wrong) restart of the enumeration would be short (finite lists, all_functions with n <= 4); otherwise
    /// the step is taken as read after the two polls — an override that starts again there is seen at the small
    /// sizes, and is not given 2^32 items to produce at the large ones
    pub terminal_on_exhausted: bool,
}

fn agrees(g: &Obs, w: &Obs) -> bool {
    match (g, w) {
        (Obs::Hint(lo, hi), Obs::Remaining(r)) => match r {
            Some(r) => (*lo as u128) <= *r && hi.map_or(true, |h| h as u128 >= *r),
            // 2^100 or more items left: no usize upper bound can be right
            None => hi.is_none(),
        },
        _ => g == w,
    }
}

/// Run `script` on any iterator; `key` turns an item into words, `cmp` (when the items are documented to come in
/// increasing order) is the item order used for the min/max/increasing observations.
pub fn run_script_any<T, I: Iterator<Item = T>>(
    it: I,
    script: &[(u64, u64)],
    key: &dyn Fn(&T) -> Vec<u64>,
    cmp: Option<&dyn Fn(&T, &T) -> std::cmp::Ordering>,
    expect: Option<&Expect>,
    by_value_minmax: Option<&dyn Fn(I, bool) -> Option<T>>,
) -> Vec<Obs> {
    use std::cmp::Ordering;
    let mut slot = Some(it);
    let mut out: Vec<Obs> = Vec::new();
    for (step, &(kind, k)) in script.iter().enumerate() {
        if let Some(e) = expect {
            // stop at the first disagreement
            if let (Some(g), Some(w)) = (out.last(), e.obs.get(out.len().wrapping_sub(1))) {
                if !agrees(g, w) {
                    break;
                }
            }
        }
        let it = match slot.as_mut() {
            Some(it) => it,
            None => break,
        };
        if let Some(e) = expect {
            if e.exhausted_before.get(step).copied().unwrap_or(false) && kind != SIZE_HINT {
                // two polls: the first may be the iterator's first `None`, the second is a poll after `None`
                let again = match it.next() {
                    Some(x) => Some(x),
                    None => it.next(),
                };
                if let Some(x) = again {
                    // the sequence is over but the iterator yields again: report it as this step's observation
                    out.push(Obs::Item(Some(key(&x))));
                    break;
                }
                if !e.terminal_on_exhausted && matches!(kind, COUNT | LAST | FOLD | MIN | MAX) {
                    if let Some(w) = e.obs.get(step) {
                        out.push(w.clone());
                    }
                    slot = None;
                    continue;
                }
            }
        }
        match kind {
            NEXT | NEXT_AFTER_END => out.push(Obs::Item(it.next().map(|t| key(&t)))),
            NTH => out.push(Obs::Item(it.nth(usz(k)).map(|t| key(&t)))),
            SIZE_HINT => {
                let (lo, hi) = it.size_hint();
                out.push(Obs::Hint(lo, hi));
            }
            SKIP_NEXT => out.push(Obs::Item(it.by_ref().skip(usz(k)).next().map(|t| key(&t)))),
            STEP_BY3 => out.push(Obs::Items(it.by_ref().step_by(usz(k)).take(3).map(|t| key(&t)).collect())),
            TAKE_COUNT => out.push(Obs::Num(it.by_ref().take(usz(k)).count() as u128)),
            TAKE_MINMAX => {
                let v: Vec<T> = it.by_ref().take(usz(k)).collect();
                if v.is_empty() {
                    out.push(Obs::MinMax(None));
                } else {
                    let (mn_first, mx_last, inc) = match cmp {
                        Some(c) => {
                            let mn = v.iter().min_by(|a, b| c(a, b)).unwrap();
                            let mx = v.iter().max_by(|a, b| c(a, b)).unwrap();
                            (
                                c(mn, &v[0]) == Ordering::Equal,
                                c(mx, &v[v.len() - 1]) == Ordering::Equal,
                                v.windows(2).all(|w| c(&w[0], &w[1]) == Ordering::Less),
                            )
                        }
                        None => (true, true, true),
                    };
                    out.push(Obs::MinMax(Some((key(&v[0]), key(&v[v.len() - 1]), mn_first, mx_last, inc))));
                }
            }
            COUNT => {
                let it = slot.take().unwrap();
                out.push(Obs::Num(it.count() as u128));
            }
            LAST => {
                let it = slot.take().unwrap();
                out.push(Obs::Item(it.last().map(|t| key(&t))));
            }
            FOLD => {
                let it = slot.take().unwrap();
                let (c, x) = it.fold((0u128, 0u64), |(c, x), t| (c + 1, x ^ key(&t)[0]));
                out.push(Obs::Fold(c, x));
            }
            MIN | MAX => {
                // Iterator::min_by / max_by by value with the items' own order (only generated when one is given)
                let it = slot.take().unwrap();
                let f = by_value_minmax.expect("harness: min/max on an unordered iterator");
                out.push(Obs::Item(f(it, kind == MIN).map(|t| key(&t))));
            }
            _ => panic!("harness: unknown iterator script step {}", kind),
        }
    }
    out
}

/// Pre-flight for scripts that rely on the iterator ending (counts larger than what is left, `count`, `last`,
/// `fold`): plain `next()` calls, at most `limit + 1` of them.  `false` = the iterator yields more than `limit`
/// items, i.e. it does not end where the model says; the script is then not run (a default `nth` / `count` would
/// not return) and the caller reports the violation.
pub fn ends_within<T, I: Iterator<Item = T>>(mut it: I, limit: u128) -> bool {
    let mut c: u128 = 0;
    while it.next().is_some() {
        c += 1;
        if c > limit {
            return false;
        }
    }
    true
}

/// What the model of a sequence has to answer.
pub trait Position: Clone {
    fn cur(&self) -> Option<Vec<u64>>;
    fn advance(&mut self, k: u128);
    fn remaining(&self) -> Option<u128>;
    fn last_item(&self) -> Vec<u64>;
    /// low 64 bits of the position (used to aim arguments at wrap-around values)
    fn low(&self) -> u64;
}

/// A position in an explicit finite list (the sequence that plain `next()` calls define).
#[derive(Clone, Debug)]
pub struct SeqPos<'a> {
    pub list: &'a [Vec<u64>],
    pub idx: usize,
}

impl<'a> Position for SeqPos<'a> {
    fn cur(&self) -> Option<Vec<u64>> {
        self.list.get(self.idx).cloned()
    }
    fn advance(&mut self, k: u128) {
        let left = (self.list.len() - self.idx) as u128;
        self.idx = if k >= left { self.list.len() } else { self.idx + k as usize };
    }
    fn remaining(&self) -> Option<u128> {
        Some((self.list.len() - self.idx) as u128)
    }
    fn last_item(&self) -> Vec<u64> {
        self.list[self.list.len() - 1].clone()
    }
    fn low(&self) -> u64 {
        self.idx as u64
    }
}

/// The model: a position in the numeric order of the 2^n-bit tables.
#[derive(Clone, Debug)]
pub struct Pos {
    pub n: usize,
    pub blocks: Vec<u64>,
    pub done: bool,
}

impl Pos {
    pub fn new(n: usize, start: &[u64]) -> Pos {
        Pos { n, blocks: start.to_vec(), done: false }
    }

    /// move forward by `k` positions; past the last table the position is exhausted
    pub fn advance(&mut self, k: u128) {
        if self.done || k == 0 {
            return;
        }
        if self.n < 6 {
            let total: u128 = 1u128 << (1u32 << self.n);
            let v = self.blocks[0] as u128;
            match v.checked_add(k) {
                Some(s) if s < total => self.blocks[0] = s as u64,
                _ => self.done = true,
            }
            return;
        }
        let mut carry: u128 = k;
        for w in self.blocks.iter_mut() {
            if carry == 0 {
                break;
            }
            let s = *w as u128 + (carry & 0xffff_ffff_ffff_ffff);
            *w = s as u64;
            carry = (carry >> 64) + (s >> 64);
        }
        if carry != 0 {
            self.done = true;
        }
    }

    /// number of items left, `None` when it is 2^100 or more
    pub fn remaining(&self) -> Option<u128> {
        if self.done {
            return Some(0);
        }
        if self.n < 6 {
            let total: u128 = 1u128 << (1u32 << self.n);
            return Some(total - self.blocks[0] as u128);
        }
        if self.blocks[1..].iter().all(|w| *w == !0u64) {
            Some((1u128 << 64) - self.blocks[0] as u128)
        } else {
            None
        }
    }

}

impl Position for Pos {
    fn cur(&self) -> Option<Vec<u64>> {
        if self.done {
            None
        } else {
            Some(self.blocks.clone())
        }
    }
    fn advance(&mut self, k: u128) {
        Pos::advance(self, k)
    }
    fn remaining(&self) -> Option<u128> {
        Pos::remaining(self)
    }
    fn low(&self) -> u64 {
        self.blocks[0]
    }
    fn last_item(&self) -> Vec<u64> {
        if self.n < 6 {
            vec![((1u128 << (1u32 << self.n)) - 1) as u64]
        } else {
            vec![!0u64; self.blocks.len()]
        }
    }
}

/// Expected observations of `script` from position `start`.
pub fn model_script(n: usize, start: &[u64], script: &[(u64, u64)]) -> Vec<Obs> {
    model_script_at(Pos::new(n, start), script)
}

/// Observations and exhausted-before flags, for `run_script*`.
pub fn expect_at<P: Position>(p: P, script: &[(u64, u64)]) -> Expect {
    let mut flags = Vec::new();
    let mut q = p.clone();
    for &(kind, k) in script {
        flags.push(q.cur().is_none());
        match kind {
            NEXT | NEXT_AFTER_END => q.advance(1),
            NTH | SKIP_NEXT => {
                q.advance(k as u128);
                q.advance(1);
            }
            STEP_BY3 => {
                // as in the model: up to three items, k apart
                for j in 0..3 {
                    if j > 0 {
                        q.advance(k as u128 - 1);
                    }
                    if q.cur().is_none() {
                        break;
                    }
                    q.advance(1);
                }
            }
            TAKE_COUNT | TAKE_MINMAX => q.advance(k as u128),
            SIZE_HINT => {}
            _ => break,
        }
    }
    Expect { obs: model_script_at(p, script), exhausted_before: flags, terminal_on_exhausted: true }
}

/// Expected observations of `script` from any modelled position.
pub fn model_script_at<P: Position>(mut p: P, script: &[(u64, u64)]) -> Vec<Obs> {
    let mut out = Vec::new();
    let mut consumed = false;
    for &(kind, k) in script {
        if consumed {
            break;
        }
        match kind {
            NEXT | NEXT_AFTER_END => {
                out.push(Obs::Item(p.cur()));
                p.advance(1);
            }
            NTH | SKIP_NEXT => {
                p.advance(k as u128);
                out.push(Obs::Item(p.cur()));
                p.advance(1);
            }
            SIZE_HINT => out.push(Obs::Remaining(p.remaining())),
            STEP_BY3 => {
                let mut v = Vec::new();
                for j in 0..3 {
                    if j > 0 {
                        p.advance(k as u128 - 1);
                    }
                    match p.cur() {
                        Some(b) => v.push(b),
                        None => break,
                    }
                    p.advance(1);
                }
                out.push(Obs::Items(v));
            }
            TAKE_COUNT => {
                let c = match p.remaining() {
                    Some(r) => std::cmp::min(r, k as u128),
                    None => k as u128,
                };
                out.push(Obs::Num(c));
                p.advance(c);
            }
            TAKE_MINMAX => {
                let c = match p.remaining() {
                    Some(r) => std::cmp::min(r, k as u128),
                    None => k as u128,
                };
                if c == 0 {
                    out.push(Obs::MinMax(None));
                } else {
                    let first = p.cur().unwrap();
                    p.advance(c - 1);
                    let last = p.cur().unwrap();
                    p.advance(1);
                    out.push(Obs::MinMax(Some((first, last, true, true, true))));
                }
            }
            COUNT => {
                out.push(Obs::Num(p.remaining().expect("harness: count on an unbounded remainder")));
                consumed = true;
            }
            LAST | MAX => {
                out.push(Obs::Item(if p.cur().is_none() { None } else { Some(p.last_item()) }));
                consumed = true;
            }
            MIN => {
                out.push(Obs::Item(p.cur()));
                consumed = true;
            }
            FOLD => {
                let r = p.remaining().expect("harness: fold on an unbounded remainder");
                // xor of the low words of r consecutive tables starting at the current one
                let mut x = 0u64;
                let mut q = p.clone();
                for _ in 0..r {
                    x ^= q.cur().map(|b| b[0]).unwrap_or(0);
                    q.advance(1);
                }
                out.push(Obs::Fold(r, x));
                consumed = true;
            }
            _ => panic!("harness: unknown iterator script step {}", kind),
        }
    }
    out
}

/// Compare what the iterator did with what the model says; `None` when they agree, else (step index, text).
pub fn first_disagreement(got: &[Obs], want: &[Obs]) -> Option<(usize, String)> {
    for (i, (g, w)) in got.iter().zip(want.iter()).enumerate() {
        if !agrees(g, w) {
            return Some((i, format!("observed {:x?}, expected {:x?}", g, w)));
        }
    }
    if got.len() != want.len() {
        return Some((std::cmp::min(got.len(), want.len()), format!("{} observations, expected {}", got.len(), want.len())));
    }
    None
}

/// upper bound of the number of `next()` calls a default (non-overridden) implementation makes for `script`
pub fn default_cost(n: usize, start: &[u64], script: &[(u64, u64)]) -> u128 {
    default_cost_at(Pos::new(n, start), script)
}

pub fn default_cost_at<P: Position>(mut p: P, script: &[(u64, u64)]) -> u128 {
    let mut cost: u128 = 0;
    for &(kind, k) in script {
        let rem = p.remaining().unwrap_or(u128::MAX);
        let step: u128 = match kind {
            NEXT | NEXT_AFTER_END | SIZE_HINT => 1,
            NTH | SKIP_NEXT => k as u128 + 1,
            STEP_BY3 => 3 * (k as u128),
            TAKE_COUNT | TAKE_MINMAX => k as u128,
            _ => u128::MAX,
        };
        cost = cost.saturating_add(std::cmp::min(step, rem.saturating_add(1)));
        match kind {
            NEXT | NEXT_AFTER_END => p.advance(1),
            NTH | SKIP_NEXT => {
                p.advance(k as u128);
                p.advance(1);
            }
            STEP_BY3 => p.advance(2 * (k as u128) + 1),
            TAKE_COUNT | TAKE_MINMAX => p.advance(k as u128),
            SIZE_HINT => {}
            _ => break,
        }
    }
    cost
}

/// what a default implementation may cost (in `next()` calls) for a generated script to be accepted
pub const MAX_DEFAULT_COST: u128 = 80_000;

/// A start position: (fresh iterator?, blocks).  Fresh means `all_functions` itself (position zero); the others
/// are reached through the `verif_iter_from` hook.
pub fn gen_start(n: usize, rng: &mut crate::rng::Rng) -> (bool, Vec<u64>) {
    let w = crate::gen::words(n);
    let mask0: u64 = if n < 6 { ((1u128 << (1u32 << n)) - 1) as u64 } else { !0u64 };
    let mut b = vec![0u64; w];
    match rng.below(8) {
        0 => return (true, b),
        1 => {
            b[0] = (1 + rng.below(200) as u64) & mask0;
        }
        2 | 3 => {
            // near the end: r items left
            let r: u64 = match rng.below(4) {
                0 => 1 + rng.below(3) as u64,
                1 => 1 + rng.below(300) as u64,
                _ => 1 + rng.below(60_000) as u64,
            };
            for x in b.iter_mut() {
                *x = !0u64;
            }
            b[0] = mask0;
            b[0] = b[0].saturating_sub(r - 1);
            if n < 6 && (r - 1) > mask0 {
                b[0] = 0;
            }
        }
        4 => {
            b = crate::gen::random_blocks(n, rng);
        }
        5 => {
            // low words all ones: the next steps carry
            b = crate::gen::random_blocks(n, rng);
            let j = rng.below(w) ;
            for x in b.iter_mut().take(j) {
                *x = !0u64;
            }
            b[std::cmp::min(j, w - 1)] |= mask0 & !((1u64 << rng.below(12)) - 1);
        }
        6 => {
            b[0] = rng.next_u64() & mask0;
        }
        _ => {
            // a power of two and its neighbours in the low word
            let e = rng.below(64) as u32;
            b[0] = (1u64 << e).wrapping_add(rng.below(3) as u64).wrapping_sub(1) & mask0;
        }
    }
    b[0] &= mask0;
    (false, b)
}

fn gen_arg<P: Position>(total_small: Option<u128>, p: &P, huge_ok: bool, rng: &mut crate::rng::Rng) -> u64 {
    let rem = p.remaining();
    let pos0 = p.low();
    let pick = rng.below(if huge_ok { 10 } else { 5 });
    match pick {
        0 | 1 => rng.below(5) as u64,
        2 => rng.below(2000) as u64,
        3 | 4 => match rem {
            // exactly to the end, one short, one past
            Some(r) if r <= u64::MAX as u128 => {
                let r = r as u64;
                match rng.below(4) {
                    0 => r,
                    1 => r.saturating_sub(1),
                    2 => r.saturating_add(1),
                    _ => r.saturating_sub(2),
                }
            }
            _ => rng.below(64) as u64,
        },
        5 => u64::MAX - rng.below(3) as u64,
        6 => {
            // values that wrap around 2^64 together with the position
            let j = match rng.below(5) {
                0 => pos0,
                1 => pos0.saturating_sub(1),
                2 => pos0.saturating_add(1),
                3 => pos0 / 2,
                _ => rng.below(1 << 20) as u64,
            };
            u64::MAX - j
        }
        7 => {
            let e = [31u32, 32, 33, 62, 63][rng.below(5)];
            (1u64 << e).wrapping_add(rng.below(3) as u64).wrapping_sub(1)
        }
        8 => match total_small {
            Some(t) => {
                let t = t as u64; // 2^32 at most... n = 5 gives 2^32
                match rng.below(4) {
                    0 => t,
                    1 => t.wrapping_sub(pos0),
                    2 => t.wrapping_sub(pos0).wrapping_sub(1),
                    _ => t.wrapping_sub(1),
                }
            }
            None => rng.next_u64(),
        },
        _ => rng.next_u64(),
    }
}

/// A script for `start` whose cost with default (stepping) implementations stays below `MAX_DEFAULT_COST`.
pub fn gen_script(n: usize, start: &[u64], rng: &mut crate::rng::Rng) -> Vec<(u64, u64)> {
    let total_small: Option<u128> = if n <= 5 { Some(1u128 << (1u32 << n)) } else { None };
    gen_script_at(&Pos::new(n, start), total_small, true, rng)
}

/// The same for any modelled position (`total_small`: the length of the whole sequence when it fits 64 bits).
pub fn gen_script_at<P: Position>(p0: &P, total_small: Option<u128>, ordered: bool, rng: &mut crate::rng::Rng) -> Vec<(u64, u64)> {
    for _ in 0..30 {
        let mut p = p0.clone();
        let mut s: Vec<(u64, u64)> = Vec::new();
        let steps = 1 + rng.below(5);
        let mut terminal = false;
        for _ in 0..steps {
            let kind = [NEXT, NTH, NTH, SIZE_HINT, SKIP_NEXT, SKIP_NEXT, STEP_BY3, STEP_BY3, TAKE_COUNT, TAKE_MINMAX, COUNT, LAST, FOLD, MIN, MAX]
                [rng.below(if ordered { 15 } else { 13 })];
            let arg = match kind {
                NTH | SKIP_NEXT | TAKE_COUNT => gen_arg(total_small, &p, true, rng),
                STEP_BY3 => std::cmp::max(1, gen_arg(total_small, &p, true, rng)),
                TAKE_MINMAX => std::cmp::min(2000, gen_arg(total_small, &p, false, rng)),
                _ => 0,
            };
            s.push((kind, arg));
            match kind {
                NEXT => p.advance(1),
                NTH | SKIP_NEXT => {
                    p.advance(arg as u128);
                    p.advance(1);
                }
                STEP_BY3 => p.advance(2 * (arg as u128) + 1),
                TAKE_COUNT | TAKE_MINMAX => p.advance(arg as u128),
                SIZE_HINT => {}
                _ => {
                    terminal = true;
                    break;
                }
            }
        }
        if !terminal {
            // where the iterator stands after the adaptors
            s.push((NEXT, 0));
            s.push((SIZE_HINT, 0));
            s.push((NEXT_AFTER_END, 0));
        }
        if default_cost_at(p0.clone(), &s) <= MAX_DEFAULT_COST {
            return s;
        }
    }
    vec![(NEXT, 0), (NEXT, 0)]
}

pub fn script_to_ints(fresh: bool, s: &[(u64, u64)]) -> Vec<u64> {
    let mut v = vec![fresh as u64];
    for (k, a) in s {
        v.push(*k);
        v.push(*a);
    }
    v
}

pub fn ints_to_script(v: &[u64]) -> (bool, Vec<(u64, u64)>) {
    let fresh = v.first().copied().unwrap_or(0) != 0;
    let s = v[1..].chunks(2).filter(|c| c.len() == 2).map(|c| (c[0], c[1])).collect();
    (fresh, s)
}

/// "nth+skip.next+next": the kinds of a script, for coverage cells
pub fn script_kinds(s: &[(u64, u64)]) -> Vec<&'static str> {
    let mut v: Vec<&'static str> = s.iter().map(|(k, _)| kind_name(*k)).collect();
    v.sort();
    v.dedup();
    v
}

/// Finite iterators (cube enumerations, variable lists): the sequence that plain `next()` calls on a fresh
/// iterator define is the reference; `script` on another fresh iterator must agree with it.
/// Returns the number of observations compared, or the first disagreement.
pub fn check_seq_script<T, I: Iterator<Item = T>>(
    mk: &dyn Fn() -> I,
    key: &dyn Fn(&T) -> Vec<u64>,
    script: &[(u64, u64)],
) -> Result<usize, (usize, String)> {
    let mut reference: Vec<Vec<u64>> = Vec::new();
    let mut it = mk();
    while let Some(x) = it.next() {
        reference.push(key(&x));
        if reference.len() > (1 << 21) {
            return Err((0, "the iterator does not end within 2^21 items".into()));
        }
    }
    let expect = expect_at(SeqPos { list: &reference, idx: 0 }, script);
    let got = run_script_any(mk(), script, key, None, Some(&expect), None);
    match first_disagreement(&got, &expect.obs) {
        None => Ok(got.len()),
        Some(d) => Err(d),
    }
}

/// A script for a finite sequence of `len` items, from its start.
pub fn gen_seq_script(len: usize, rng: &mut crate::rng::Rng) -> Vec<(u64, u64)> {
    // only the length matters for generation
    let list: Vec<Vec<u64>> = vec![Vec::new(); len];
    let mut s = Vec::new();
    // often: consume a few items one by one first, so that the adaptors start from an odd / inner position
    for _ in 0..rng.below(4) {
        s.push((NEXT, 0));
    }
    let mut p = SeqPos { list: &list, idx: 0 };
    p.advance(s.len() as u128);
    s.extend(gen_script_at(&p, Some(len as u128), false, rng));
    s
}

pub fn describe_script(s: &[(u64, u64)]) -> String {
    s.iter().map(|(k, a)| format!("{}({})", kind_name(*k), a)).collect::<Vec<_>>().join(", ")
}
