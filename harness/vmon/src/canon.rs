//! Shared pieces of the canonization monitors (C04, C05): uniform call, certificate evaluator,
//! validator of the swap/flip sequences recorded by hook H1.

use std::collections::HashMap;

use crate::ctx::{guard, Outcome};
use crate::model::{Group, Model};
use crate::rng::Digest;
use crate::tbl::Tbl;

pub struct CanonOut<T> {
    pub repr: T,
    pub perm: Vec<u8>,
    pub mask: u32,
    /// sequences handed to the walker during this call (hook H1)
    pub swaps: Vec<u8>,
    pub flips: Vec<u8>,
}

/// One canonization call, normalised to (representative, perm, mask): P has mask 0, N has the
/// identity permutation.  The hook record is cleared before and read after the call.
pub fn call_canon<T: Tbl>(g: Group, f: &T) -> Outcome<CanonOut<T>> {
    let n = f.nv();
    guard(|| {
        volute::verif_hooks::clear_canonization_sequences();
        let (repr, perm, mask) = match g {
            Group::P => {
                let (r, p) = f.t_p_canon();
                (r, p, 0u32)
            }
            Group::N => {
                let (r, m) = f.t_n_canon();
                (r, (0..n as u8).collect(), m)
            }
            Group::Npn => f.t_npn_canon(),
        };
        let (swaps, flips) = volute::verif_hooks::last_canonization_sequences();
        CanonOut {
            repr,
            perm,
            mask,
            swaps,
            flips,
        }
    })
}

/// Err(reason) when (perm, mask) is not a well-formed certificate for n variables.
pub fn certificate_shape(n: usize, perm: &[u8], mask: u32) -> Result<(), String> {
    if perm.len() != n {
        return Err(format!("perm has {} entries for {} variables", perm.len(), n));
    }
    let mut seen = vec![false; n];
    for p in perm {
        let p = *p as usize;
        if p >= n || seen[p] {
            return Err(format!("perm {:?} is not a permutation of 0..{}", perm, n));
        }
        seen[p] = true;
    }
    if n + 1 < 32 && (mask >> (n + 1)) != 0 {
        return Err(format!("mask {:#x} has a bit above position {}", mask, n));
    }
    Ok(())
}

/// The function denoted by the certificate applied to f (statement of C05).
pub fn apply_certificate(f: &Model, perm: &[u8], mask: u32) -> Model {
    let p: Vec<usize> = perm.iter().map(|x| *x as usize).collect();
    let n = f.n;
    f.apply_npn(&p, (mask as usize) & ((1usize << n) - 1), (mask >> n) & 1 == 1)
}

#[derive(Clone, Debug, PartialEq, Eq)]
pub struct WalkReport {
    /// every group element is visited at least once (what correctness of the minimum needs)
    pub covers: bool,
    pub exactly_once: bool,
    pub closed: bool,
    pub states_visited: u64,
    pub group_size: u64,
    pub detail: String,
}

fn factorial(n: usize) -> u64 {
    (1..=n as u64).product()
}

/// rank of a permutation (Lehmer code)
fn rank(p: &[u8]) -> usize {
    let n = p.len();
    let mut r = 0usize;
    for i in 0..n {
        let smaller = p[i + 1..].iter().filter(|x| **x < p[i]).count();
        r = r * (n - i) + smaller;
    }
    r
}

/// Simulate the walk of the canonization routines on the abstract state (order of the inputs,
/// input polarities, output polarity) exactly as the walkers consume the sequences, and report
/// which group elements are visited.
pub fn check_walk(n: usize, g: Group, swaps: &[u8], flips: &[u8]) -> WalkReport {
    let nperm = if g == Group::N { 1 } else { factorial(n) } as usize;
    let npol = if g == Group::P { 1usize } else { 1usize << n };
    let nout = if g == Group::P { 1usize } else { 2 };
    let total = nperm * npol * nout;
    let mut count = vec![0u8; total];
    let mut perm: Vec<u8> = (0..n as u8).collect();
    let mut pol = 0usize;
    let idx = |pr: usize, pol: usize, o: usize| (pr * npol + pol) * nout + o;
    // the starting table is the initial best: (identity, 0, output not complemented)
    count[idx(0, 0, 0)] = 1;
    let mut bad = String::new();
    let mut steps = 0u64;
    let visit = |count: &mut Vec<u8>, k: usize| {
        if count[k] < 255 {
            count[k] += 1;
        }
    };
    match g {
        Group::P => {
            for s in swaps {
                let s = *s as usize;
                if s + 1 >= n {
                    bad = format!("swap index {} out of range", s);
                    break;
                }
                perm.swap(s, s + 1);
                steps += 1;
                visit(&mut count, idx(rank(&perm), 0, 0));
            }
        }
        Group::N => {
            for f in flips {
                let f = *f as usize;
                if f >= n {
                    bad = format!("flip index {} out of range", f);
                    break;
                }
                pol ^= 1 << f;
                for o in [1usize, 0] {
                    steps += 1;
                    visit(&mut count, idx(0, pol, o));
                }
            }
        }
        Group::Npn => {
            'outer: for s in swaps {
                let s = *s as usize;
                if s + 1 >= n {
                    bad = format!("swap index {} out of range", s);
                    break;
                }
                perm.swap(s, s + 1);
                let pr = rank(&perm);
                for f in flips {
                    let f = *f as usize;
                    if f >= n {
                        bad = format!("flip index {} out of range", f);
                        break 'outer;
                    }
                    pol ^= 1 << f;
                    for o in [1usize, 0] {
                        steps += 1;
                        visit(&mut count, idx(pr, pol, o));
                    }
                }
            }
        }
    }
    let missing = count.iter().filter(|c| **c == 0).count();
    let multi = count.iter().filter(|c| **c > 1).count();
    let closed = perm.iter().enumerate().all(|(i, p)| *p as usize == i) && pol == 0;
    let mut detail = bad.clone();
    if missing > 0 && detail.is_empty() {
        let first = count.iter().position(|c| *c == 0).unwrap();
        detail = format!(
            "{} of {} group elements never visited (first: order-rank {}, polarity {:#x}, output {})",
            missing,
            total,
            first / (npol * nout),
            (first / nout) % npol,
            first % nout
        );
    }
    WalkReport {
        covers: missing == 0 && bad.is_empty(),
        // the start element is the initial best and is met again when the walk closes
        exactly_once: multi <= 1 && missing == 0,
        closed,
        states_visited: steps + 1,
        group_size: total as u64,
        detail,
    }
}

/// Cache of validated sequences (they only depend on n and the group unless the code changes per call).
#[derive(Default)]
pub struct WalkCache {
    seen: HashMap<(u8, usize, u64), WalkReport>,
}

impl WalkCache {
    pub fn check(&mut self, n: usize, g: Group, swaps: &[u8], flips: &[u8]) -> (WalkReport, bool) {
        let d = Digest::new().bytes(swaps).bytes(flips).get();
        let key = (g as u8, n, d);
        if let Some(r) = self.seen.get(&key) {
            return (r.clone(), false);
        }
        let r = check_walk(n, g, swaps, flips);
        self.seen.insert(key, r.clone());
        (r, true)
    }
}

#[cfg(test)]
mod tests {
    use super::*;
    #[test]
    fn walks() {
        // n = 2: swaps [0,0] visits both orders and closes
        let r = check_walk(2, Group::P, &[0, 0], &[]);
        assert!(r.covers && r.closed);
        let r = check_walk(2, Group::P, &[], &[]);
        assert!(!r.covers);
        let r = check_walk(2, Group::N, &[], &[0, 1, 0, 1]);
        assert!(r.covers && r.closed && r.exactly_once);
        let r = check_walk(2, Group::Npn, &[0, 0], &[0, 1, 0, 1]);
        assert!(r.covers && r.closed);
        let r = check_walk(2, Group::Npn, &[0, 0], &[0, 1, 0, 0]);
        assert!(!r.covers);
        assert_eq!(rank(&[0, 1, 2]), 0);
        assert_eq!(rank(&[2, 1, 0]), 5);
    }
}
