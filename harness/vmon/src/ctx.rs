//! Monitoring context: event descriptions, counters per coverage cell, distinct-case accounting,
//! sample trace, violations with replay data, and the guarded call that turns a library panic
//! into an observable outcome.

use std::collections::{BTreeMap, HashSet};
use std::panic::{catch_unwind, AssertUnwindSafe};
use std::sync::atomic::{AtomicBool, Ordering as AO};
use std::time::Instant;

use crate::json::Json;
use crate::rng::Digest;

/// A self-contained description of one execution handed to the library: enough to run it again.
#[derive(Clone, Debug, Default)]
pub struct Ev {
    pub op: String,
    /// "Lut" or "LutN" (or a form name for the two-level types)
    pub ty: String,
    pub n: usize,
    /// tables as well-formed block vectors
    pub tabs: Vec<Vec<u64>>,
    pub ints: Vec<u64>,
    pub strs: Vec<String>,
}

impl Ev {
    pub fn new(op: &str, ty: &str, n: usize) -> Ev {
        Ev {
            op: op.to_string(),
            ty: ty.to_string(),
            n,
            ..Default::default()
        }
    }
    pub fn tab(mut self, t: &[u64]) -> Ev {
        self.tabs.push(t.to_vec());
        self
    }
    pub fn int(mut self, i: usize) -> Ev {
        self.ints.push(i as u64);
        self
    }
    pub fn int64(mut self, i: u64) -> Ev {
        self.ints.push(i);
        self
    }
    pub fn st(mut self, s: &str) -> Ev {
        self.strs.push(s.to_string());
        self
    }
    pub fn is_static(&self) -> bool {
        self.ty == "LutN"
    }
    pub fn i(&self, k: usize) -> usize {
        self.ints[k] as usize
    }
    pub fn digest(&self) -> u64 {
        let mut d = Digest::new().str(&self.op).str(&self.ty).usize(self.n);
        for t in &self.tabs {
            d = d.words(t);
        }
        d = d.words(&self.ints);
        for s in &self.strs {
            d = d.str(s);
        }
        d.get()
    }
    pub fn to_json(&self) -> Json {
        Json::obj()
            .set("op", Json::s(&self.op))
            .set("ty", Json::s(&self.ty))
            .set("n", Json::i(self.n as u64))
            .set(
                "tabs",
                Json::Arr(self.tabs.iter().map(|t| Json::s(hex_of_blocks(t))).collect()),
            )
            .set(
                "ints",
                Json::Arr(self.ints.iter().map(|i| Json::i(*i)).collect()),
            )
            .set(
                "strs",
                Json::Arr(self.strs.iter().map(Json::s).collect()),
            )
    }
    pub fn from_json(j: &Json) -> Result<Ev, String> {
        let g = |k: &str| j.get(k).ok_or_else(|| format!("missing {}", k));
        let mut ev = Ev::new(
            g("op")?.as_str().ok_or("op")?,
            g("ty")?.as_str().ok_or("ty")?,
            g("n")?.as_usize().ok_or("n")?,
        );
        for t in g("tabs")?.as_arr().ok_or("tabs")? {
            ev.tabs.push(blocks_of_hex(t.as_str().ok_or("tab")?)?);
        }
        for t in g("ints")?.as_arr().ok_or("ints")? {
            ev.ints.push(t.as_u64().ok_or("int")?);
        }
        for t in g("strs")?.as_arr().ok_or("strs")? {
            ev.strs.push(t.as_str().ok_or("str")?.to_string());
        }
        Ok(ev)
    }
}

/// words most significant first, 16 hex digits each, separated by '.'
pub fn hex_of_blocks(b: &[u64]) -> String {
    let mut s = String::new();
    for (i, w) in b.iter().rev().enumerate() {
        if i > 0 {
            s.push('.');
        }
        s.push_str(&format!("{:016x}", w));
    }
    s
}

pub fn blocks_of_hex(s: &str) -> Result<Vec<u64>, String> {
    if s.is_empty() {
        return Ok(vec![]);
    }
    let mut v = Vec::new();
    for p in s.split('.') {
        v.push(u64::from_str_radix(p, 16).map_err(|e| e.to_string())?);
    }
    v.reverse();
    Ok(v)
}

/// Outcome of a guarded library call.
pub enum Outcome<T> {
    Returned(T),
    Panicked(String),
}

impl<T> Outcome<T> {
    pub fn is_panic(&self) -> bool {
        matches!(self, Outcome::Panicked(_))
    }
}

static HOOK_SET: AtomicBool = AtomicBool::new(false);

thread_local! {
    static GUARD_DEPTH: std::cell::Cell<u32> = const { std::cell::Cell::new(0) };
}

/// Silence the default panic printer for panics raised inside `guard` (library panics are
/// observations here, not noise); anything else is a harness defect and is printed.
pub fn silence_panics() {
    if !HOOK_SET.swap(true, AO::SeqCst) {
        std::panic::set_hook(Box::new(|info| {
            let msg = panic_message_any(info.payload());
            let inside = GUARD_DEPTH.with(|d| d.get()) > 0;
            if !inside || msg.starts_with("harness:") {
                eprintln!("HARNESS PANIC: {} at {:?}", msg, info.location());
            }
        }));
    }
}

fn panic_message_any(p: &(dyn std::any::Any + Send)) -> String {
    if let Some(s) = p.downcast_ref::<&str>() {
        s.to_string()
    } else if let Some(s) = p.downcast_ref::<String>() {
        s.clone()
    } else {
        "<non-string panic>".to_string()
    }
}

struct DepthGuard;
impl Drop for DepthGuard {
    fn drop(&mut self) {
        GUARD_DEPTH.with(|d| d.set(d.get().saturating_sub(1)));
    }
}

/// Run a library call; only the library call itself should be inside `f`.
pub fn guard<T>(f: impl FnOnce() -> T) -> Outcome<T> {
    GUARD_DEPTH.with(|d| d.set(d.get() + 1));
    let r = {
        let _g = DepthGuard;
        catch_unwind(AssertUnwindSafe(f))
    };
    match r {
        Ok(v) => Outcome::Returned(v),
        Err(p) => {
            let m = panic_message_any(&*p);
            if m.starts_with("harness:") {
                // never let a harness defect pass for a library panic
                std::panic::resume_unwind(p);
            }
            Outcome::Panicked(m)
        }
    }
}

#[derive(Clone, Debug)]
pub struct Violation {
    pub sig: String,
    pub monitor: String,
    pub msg: String,
    pub ev: Ev,
    pub count: u64,
}

pub const MAX_DISTINCT: usize = 4_000_000;
pub const MAX_VIOLATION_SIGS: usize = 64;
/// violations seen so far by any thread (first occurrence of a signature per context), for `start_deadline`
static PARTIAL: std::sync::Mutex<Vec<Json>> = std::sync::Mutex::new(Vec::new());
/// `<out>.partial` and the header fields of a partial part file
static PARTIAL_FILE: std::sync::OnceLock<(String, Json)> = std::sync::OnceLock::new();

pub const SAMPLES_PER_CELL: u64 = 2;
pub const MAX_SAMPLES: usize = 400;

pub struct Ctx {
    pub property: String,
    pub tier: String,
    pub profile: String,
    pub seed: u64,
    pub evaluations: u64,
    pub nontrivial_events: u64,
    distinct: HashSet<u64>,
    distinct_overflow: u64,
    pub cells: BTreeMap<String, u64>,
    pub monitors: BTreeMap<String, u64>,
    pub counters: BTreeMap<String, u64>,
    pub samples: Vec<Json>,
    pub violations: BTreeMap<String, Violation>,
    pub violations_total: u64,
    pub notes: Vec<String>,
    pub exhaustive: BTreeMap<String, bool>,
    pub start: Instant,
    /// thinned sample of executed events (with their measured cost in microseconds) kept for `run_mix`
    mix: Vec<(Ev, u64)>,
    mix_stride: u64,
    mix_last: Option<Instant>,
    /// set while `run_mix` re-executes events: violations raised then are marked as sequence-dependent
    pub in_mix: bool,
    /// the events `run_mix` used, kept for `run_mix_concurrent`
    mix_used: Vec<Ev>,
}

/// events kept per context for the mixed re-execution
pub const MIX_PER_CTX: usize = 512;
pub const MIX_TOTAL: usize = 6000;

impl Ctx {
    pub fn new(property: &str, tier: &str, profile: &str, seed: u64) -> Ctx {
        Ctx {
            property: property.to_string(),
            tier: tier.to_string(),
            profile: profile.to_string(),
            seed,
            evaluations: 0,
            nontrivial_events: 0,
            distinct: HashSet::new(),
            distinct_overflow: 0,
            cells: BTreeMap::new(),
            monitors: BTreeMap::new(),
            counters: BTreeMap::new(),
            samples: Vec::new(),
            violations: BTreeMap::new(),
            violations_total: 0,
            notes: Vec::new(),
            exhaustive: BTreeMap::new(),
            start: Instant::now(),
            mix: Vec::new(),
            mix_stride: 1,
            mix_last: None,
            in_mix: false,
            mix_used: Vec::new(),
        }
    }

    fn mix_sample(&mut self, ev: &Ev) {
        if self.in_mix {
            return;
        }
        // the time since the previous sampled event was accounted is (an upper bound of) that event's cost
        if let Some(t) = self.mix_last.take() {
            if let Some(last) = self.mix.last_mut() {
                last.1 = t.elapsed().as_micros() as u64;
            }
        }
        if self.evaluations % self.mix_stride == 0 {
            if self.mix.len() >= MIX_PER_CTX {
                let mut k = 0usize;
                self.mix.retain(|_| {
                    k += 1;
                    k % 2 == 0
                });
                self.mix_stride *= 2;
            }
            self.mix.push((ev.clone(), 0));
            self.mix_last = Some(Instant::now());
        }
    }

    pub fn child(&self) -> Ctx {
        Ctx::new(&self.property, &self.tier, &self.profile, self.seed)
    }

    pub fn thorough(&self) -> bool {
        self.tier == "thorough"
    }

    /// Account one executed event in coverage cell `cell`; `nontrivial` by the property's rule.
    /// Returns true when the event should be written to the sample trace.
    pub fn event(&mut self, cell: &str, ev: &Ev, nontrivial: bool) {
        self.evaluations += 1;
        let c = self.cells.entry(cell.to_string()).or_insert(0);
        *c += 1;
        let take_sample = *c <= SAMPLES_PER_CELL && self.samples.len() < MAX_SAMPLES;
        if nontrivial {
            self.nontrivial_events += 1;
            if self.distinct.len() < MAX_DISTINCT {
                self.distinct.insert(ev.digest());
            } else if !self.distinct.contains(&ev.digest()) {
                // beyond the cap we cannot tell new from repeated: counted separately, not as distinct
                self.distinct_overflow += 1;
            }
        }
        if take_sample {
            self.samples
                .push(ev.to_json().set("cell", Json::s(cell)));
        }
        self.mix_sample(ev);
    }

    /// Account an event by digest only (hot loops): no Ev is built unless it becomes a sample.
    pub fn event_digest(&mut self, cell: &str, digest: u64, nontrivial: bool, mk: impl FnOnce() -> Ev) {
        self.evaluations += 1;
        let c = match self.cells.get_mut(cell) {
            Some(c) => c,
            None => self.cells.entry(cell.to_string()).or_insert(0),
        };
        *c += 1;
        let take_sample = *c <= SAMPLES_PER_CELL && self.samples.len() < MAX_SAMPLES;
        if nontrivial {
            self.nontrivial_events += 1;
            if self.distinct.len() < MAX_DISTINCT {
                self.distinct.insert(digest);
            } else if !self.distinct.contains(&digest) {
                self.distinct_overflow += 1;
            }
        }
        let take_mix = !self.in_mix && (self.mix_last.is_some() || self.evaluations % self.mix_stride == 0);
        if take_sample || take_mix {
            let ev = mk();
            if take_sample {
                self.samples.push(ev.to_json().set("cell", Json::s(cell)));
            }
            if take_mix {
                self.mix_sample(&ev);
            }
        }
    }

    pub fn bump(&mut self, counter: &str, by: u64) {
        match self.counters.get_mut(counter) {
            Some(c) => *c += by,
            None => {
                self.counters.insert(counter.to_string(), by);
            }
        }
    }

    pub fn cell_only(&mut self, cell: &str) {
        match self.cells.get_mut(cell) {
            Some(c) => *c += 1,
            None => {
                self.cells.insert(cell.to_string(), 1);
            }
        }
    }

    /// One assertion of monitor `monitor`.  On failure the violation is recorded under the signature
    /// `monitor|ty|op|n|key` (first witness kept, the rest counted).
    pub fn check(
        &mut self,
        monitor: &str,
        ok: bool,
        ev: &Ev,
        key: &str,
        msg: impl FnOnce() -> String,
    ) -> bool {
        match self.monitors.get_mut(monitor) {
            Some(c) => *c += 1,
            None => {
                self.monitors.insert(monitor.to_string(), 1);
            }
        }
        if !ok {
            self.violate(monitor, ev, key, msg());
        }
        ok
    }

    /// count `k` assertions of a monitor at once (hot loops)
    pub fn checked(&mut self, monitor: &str, k: u64) {
        match self.monitors.get_mut(monitor) {
            Some(c) => *c += k,
            None => {
                self.monitors.insert(monitor.to_string(), k);
            }
        }
    }

    pub fn violate(&mut self, monitor: &str, ev: &Ev, key: &str, msg: String) {
        self.violations_total += 1;
        let msg = if msg.chars().count() > 900 {
            let mut m: String = msg.chars().take(900).collect();
            m.push_str("...");
            m
        } else {
            msg
        };
        let msg = if self.in_mix {
            format!("{} [raised during the mixed re-execution of sampled events: if the single-event replay holds, the result depends on the calls made before it]", msg)
        } else {
            msg
        };
        let sig = format!("{}|{}|{}|{}|{}", monitor, ev.ty, ev.op, ev.n, key);
        if let Some(v) = self.violations.get_mut(&sig) {
            v.count += 1;
            return;
        }
        if self.violations.len() >= MAX_VIOLATION_SIGS {
            return;
        }
        // also into the process-wide list that the deadline thread writes out if the run does not finish
        if let Ok(mut g) = PARTIAL.lock() {
            if g.len() < 64 {
                g.push(
                    Json::obj()
                        .set("sig", Json::s(&sig))
                        .set("monitor", Json::s(monitor))
                        .set("msg", Json::s(&msg))
                        .set("count", Json::i(1))
                        .set("event", ev.to_json()),
                );
                // and onto disk at once: a process that is killed or aborts later (allocation failure, stack
                // overflow inside the library) must not take the observation with it
                if let Some((path, head)) = PARTIAL_FILE.get() {
                    let mut viols = Json::arr();
                    for v in g.iter() {
                        viols.push(v.clone());
                    }
                    let j = head.clone().set("partial", Json::Bool(true)).set("violations", viols);
                    let _ = std::fs::write(path, j.to_string());
                }
            }
        }
        self.violations.insert(
            sig.clone(),
            Violation {
                sig,
                monitor: monitor.to_string(),
                msg,
                ev: ev.clone(),
                count: 1,
            },
        );
    }

    pub fn note(&mut self, s: impl Into<String>) {
        let s = s.into();
        if self.notes.len() < 200 && !self.notes.contains(&s) {
            self.notes.push(s);
        }
    }

    pub fn distinct_count(&self) -> u64 {
        self.distinct.len() as u64
    }

    pub fn merge(&mut self, o: Ctx) {
        self.evaluations += o.evaluations;
        self.nontrivial_events += o.nontrivial_events;
        self.distinct_overflow += o.distinct_overflow;
        for d in o.distinct {
            if self.distinct.len() < MAX_DISTINCT {
                self.distinct.insert(d);
            } else if !self.distinct.contains(&d) {
                self.distinct_overflow += 1;
            }
        }
        for (k, v) in o.cells {
            *self.cells.entry(k).or_insert(0) += v;
        }
        for (k, v) in o.monitors {
            *self.monitors.entry(k).or_insert(0) += v;
        }
        for (k, v) in o.counters {
            *self.counters.entry(k).or_insert(0) += v;
        }
        for (k, v) in o.exhaustive {
            let e = self.exhaustive.entry(k).or_insert(true);
            *e = *e && v;
        }
        for s in o.samples {
            if self.samples.len() < MAX_SAMPLES {
                self.samples.push(s);
            }
        }
        self.violations_total += o.violations_total;
        for (k, v) in o.violations {
            match self.violations.get_mut(&k) {
                Some(mine) => mine.count += v.count,
                None => {
                    if self.violations.len() < MAX_VIOLATION_SIGS {
                        self.violations.insert(k, v);
                    }
                }
            }
        }
        for n in o.notes {
            self.note(n);
        }
        let mut om = o.mix;
        if o.mix_last.is_some() {
            // cost of the last sampled event unknown: drop it
            om.pop();
        }
        self.mix.extend(om);
        while self.mix.len() > MIX_TOTAL {
            let mut k = 0usize;
            self.mix.retain(|_| {
                k += 1;
                k % 2 == 0
            });
        }
    }

    /// Coverage requirement: every listed cell must have been reached.
    pub fn missing_cells(&self, required: &[String]) -> Vec<String> {
        required
            .iter()
            .filter(|c| self.cells.get(*c).copied().unwrap_or(0) == 0)
            .cloned()
            .collect()
    }

    /// The per-profile part file read by the driver.
    pub fn to_json(&self, required: &[String], rule: &str) -> Json {
        let mut cells = Json::obj();
        for (k, v) in &self.cells {
            cells.put(k, Json::i(*v));
        }
        let mut mons = Json::obj();
        for (k, v) in &self.monitors {
            mons.put(k, Json::i(*v));
        }
        let mut ctrs = Json::obj();
        for (k, v) in &self.counters {
            ctrs.put(k, Json::i(*v));
        }
        let mut exh = Json::obj();
        for (k, v) in &self.exhaustive {
            exh.put(k, Json::Bool(*v));
        }
        let mut viols = Json::arr();
        for v in self.violations.values() {
            viols.push(
                Json::obj()
                    .set("sig", Json::s(&v.sig))
                    .set("monitor", Json::s(&v.monitor))
                    .set("msg", Json::s(&v.msg))
                    .set("count", Json::i(v.count))
                    .set("event", v.ev.to_json()),
            );
        }
        Json::obj()
            .set("property", Json::s(&self.property))
            .set("tier", Json::s(&self.tier))
            .set("profile", Json::s(&self.profile))
            .set("seed", Json::i(self.seed))
            .set("evaluations", Json::i(self.evaluations))
            .set("nontrivial_events", Json::i(self.nontrivial_events))
            .set("distinct_nontrivial", Json::i(self.distinct_count()))
            .set("distinct_beyond_cap_not_counted", Json::i(self.distinct_overflow))
            .set("rule", Json::s(rule))
            .set("cells", cells)
            .set("monitors", mons)
            .set("counters", ctrs)
            .set("exhaustive", exh)
            .set("samples", Json::Arr(self.samples.clone()))
            .set("violations", viols)
            .set("violations_total", Json::i(self.violations_total))
            .set(
                "required_cells",
                Json::i(required.len() as u64),
            )
            .set(
                "missing_cells",
                Json::Arr(self.missing_cells(required).iter().map(Json::s).collect()),
            )
            .set(
                "notes",
                Json::Arr(self.notes.iter().map(Json::s).collect()),
            )
            .set("wall_s", Json::Num(self.start.elapsed().as_secs_f64()))
    }
}

/// Command line of every per-property binary.
pub struct Cli {
    pub tier: String,
    pub profile: String,
    pub seed: u64,
    pub out: Option<String>,
    pub replay: Option<String>,
    pub threads: usize,
    pub extra: BTreeMap<String, String>,
}

impl Cli {
    pub fn parse() -> Cli {
        let mut c = Cli {
            tier: "quick".into(),
            profile: "unknown".into(),
            seed: 1,
            out: None,
            replay: None,
            threads: 16,
            extra: BTreeMap::new(),
        };
        let args: Vec<String> = std::env::args().skip(1).collect();
        let mut i = 0;
        while i < args.len() {
            let k = args[i].clone();
            let v = args.get(i + 1).cloned().unwrap_or_default();
            match k.as_str() {
                "--tier" => c.tier = v,
                "--profile" => c.profile = v,
                "--seed" => c.seed = v.parse().expect("harness: --seed"),
                "--out" => c.out = Some(v),
                "--replay" => c.replay = Some(v),
                "--threads" => c.threads = v.parse().expect("harness: --threads"),
                other => {
                    c.extra.insert(other.trim_start_matches("--").to_string(), v);
                }
            }
            i += 2;
        }
        assert!(c.tier == "quick" || c.tier == "thorough", "harness: --tier");
        c
    }
    pub fn ctx(&self, property: &str) -> Ctx {
        self.start_deadline(property);
        Ctx::new(property, &self.tier, &self.profile, self.seed)
    }
    /// `--deadline <seconds>` (given by the driver, a little less than its own watchdog): a run that is still going
    /// then — a library call that does not return — writes what its monitors have seen so far as a *partial* part
    /// file and exits with status 3.  The driver reports violations from a partial part (they were observed); a
    /// partial part without violations is inconclusive, never "held".
    fn start_deadline(&self, property: &str) {
        if let Some(o) = &self.out {
            let head = Json::obj()
                .set("property", Json::s(property))
                .set("tier", Json::s(&self.tier))
                .set("profile", Json::s(&self.profile))
                .set("seed", Json::i(self.seed));
            let _ = PARTIAL_FILE.set((format!("{}.partial", o), head));
        }
        let secs: u64 = match self.extra.get("deadline").and_then(|v| v.parse().ok()) {
            Some(s) => s,
            None => return,
        };
        let out = match &self.out {
            Some(o) => o.clone(),
            None => return,
        };
        let (property, tier, profile, seed) = (property.to_string(), self.tier.clone(), self.profile.clone(), self.seed);
        std::thread::spawn(move || {
            std::thread::sleep(std::time::Duration::from_secs(secs));
            let mut viols = Json::arr();
            if let Ok(g) = PARTIAL.lock() {
                for v in g.iter() {
                    viols.push(v.clone());
                }
            }
            let j = Json::obj()
                .set("property", Json::s(&property))
                .set("tier", Json::s(&tier))
                .set("profile", Json::s(&profile))
                .set("seed", Json::i(seed))
                .set("partial", Json::Bool(true))
                .set("deadline_s", Json::i(secs))
                .set("violations", viols);
            let _ = std::fs::write(&out, j.to_string());
            std::process::exit(3);
        });
    }
    /// Write the part file (or print it) and exit 0; verdicts are the driver's business.
    pub fn finish(&self, ctx: &Ctx, required: &[String], rule: &str) {
        let j = ctx.to_json(required, rule).to_string();
        match &self.out {
            Some(p) => std::fs::write(p, j).expect("harness: write part file"),
            None => println!("{}", j),
        }
    }
    /// Load the event of a replay file.
    pub fn replay_event(&self) -> Option<Ev> {
        let p = self.replay.as_ref()?;
        let text = std::fs::read_to_string(p).expect("harness: read replay file");
        let j = Json::parse(&text).expect("harness: parse replay file");
        let ev = j.get("event").expect("harness: replay file has no event");
        Some(Ev::from_json(ev).expect("harness: bad event in replay file"))
    }
}

/// Run `shards` independent pieces of work on `threads` OS threads and merge their contexts.
pub fn run_sharded<F>(ctx: &mut Ctx, threads: usize, shards: usize, f: F)
where
    F: Fn(&mut Ctx, usize) + Sync,
{
    let next = std::sync::atomic::AtomicUsize::new(0);
    let results: std::sync::Mutex<Vec<Ctx>> = std::sync::Mutex::new(Vec::new());
    let proto = ctx.child();
    std::thread::scope(|s| {
        for _ in 0..std::cmp::max(1, std::cmp::min(threads, shards)) {
            s.spawn(|| {
                let mut local = proto.child();
                loop {
                    let k = next.fetch_add(1, AO::SeqCst);
                    if k >= shards {
                        break;
                    }
                    f(&mut local, k);
                }
                results.lock().unwrap().push(local);
            });
        }
    });
    for c in results.into_inner().unwrap() {
        ctx.merge(c);
    }
}

/// Mixed re-execution (hidden-state monitor): a thinned sample of the events of all shards is executed again on
/// ONE thread in shuffled order, so that calls of different sizes, types and operations follow each other, each
/// third event twice in a row, then the whole list backwards.  Every event is judged by the same monitors as the
/// first time (the oracle does not depend on history), so a result that depends on what was called before —
/// memo tables, thread-local scratch, pooled state — shows up as an ordinary violation.  Events that took more
/// than `MIX_EVENT_US` the first time are left out and the pass stops after a wall-clock budget (a budget stop
/// only reduces how much was re-executed; it never changes a verdict).
pub const MIX_EVENT_US: u64 = 20_000;

pub fn run_mix<F>(ctx: &mut Ctx, seed: u64, mut f: F)
where
    F: FnMut(&mut Ctx, &Ev),
{
    let mut evs: Vec<Ev> = std::mem::take(&mut ctx.mix)
        .into_iter()
        .filter(|(_, us)| *us <= MIX_EVENT_US)
        .map(|(e, _)| e)
        .collect();
    let mut rng = crate::rng::Rng::new(seed ^ 0x6d69_785f_7265_7865);
    rng.shuffle(&mut evs);
    let budget = std::cmp::max(
        std::time::Duration::from_millis(1500),
        ctx.start.elapsed() / if ctx.thorough() { 4 } else { 6 },
    );
    let t0 = Instant::now();
    ctx.in_mix = true;
    let mut done = 0u64;
    let mut sizes: HashSet<usize> = HashSet::new();
    let mut switches = 0u64;
    let mut prev_n = usize::MAX;
    'outer: for pass in 0..2 {
        let order: Vec<usize> = if pass == 0 { (0..evs.len()).collect() } else { (0..evs.len()).rev().collect() };
        for (k, i) in order.into_iter().enumerate() {
            if t0.elapsed() > budget {
                ctx.bump("mix:stopped-by-budget", 1);
                break 'outer;
            }
            let ev = &evs[i];
            f(ctx, ev);
            done += 1;
            if k % 3 == 0 {
                f(ctx, ev);
                done += 1;
            }
            sizes.insert(ev.n);
            if ev.n != prev_n {
                switches += 1;
                prev_n = ev.n;
            }
        }
    }
    ctx.in_mix = false;
    ctx.mix_used = evs.clone();
    ctx.bump("mix:events-sampled", evs.len() as u64);
    ctx.bump("mix:re-executions", done);
    ctx.bump("mix:size-switches", switches);
    ctx.bump("mix:distinct-sizes", sizes.len() as u64);
}

/// Concurrent counterpart of `run_mix` (call it after `run_mix`): the same sampled events are executed by
/// `threads` OS threads at the same time, each in its own shuffled order, released together by a barrier, so that
/// calls of different sizes overlap in time.  State shared between threads inside the library (process-wide
/// caches, statics behind locks taken twice, non-atomic read-modify-write) shows as an ordinary violation.
pub fn run_mix_concurrent<F>(ctx: &mut Ctx, seed: u64, threads: usize, f: F)
where
    F: Fn(&mut Ctx, &Ev) + Sync,
{
    let evs: Vec<Ev> = std::mem::take(&mut ctx.mix_used);
    let budget = std::cmp::max(
        std::time::Duration::from_millis(1000),
        ctx.start.elapsed() / if ctx.thorough() { 8 } else { 12 },
    );
    let total = run_events_concurrently(ctx, seed, threads, &evs, budget, f);
    ctx.bump("mix:concurrent-re-executions", total);
    ctx.bump("mix:concurrent-threads", std::cmp::max(2, std::cmp::min(threads, 8)) as u64);
}

/// The engine of `run_mix_concurrent`, usable with any list of events (e.g. a "storm": many calls of one
/// operation at one size with arguments from a small set, so that different threads ask for the same and for
/// neighbouring things at the same time).  Every thread executes the whole list in its own shuffled order, starting
/// together; returns the number of executions.
pub fn run_events_concurrently<F>(ctx: &mut Ctx, seed: u64, threads: usize, evs: &[Ev], budget: std::time::Duration, f: F) -> u64
where
    F: Fn(&mut Ctx, &Ev) + Sync,
{
    if evs.is_empty() {
        return 0;
    }
    let threads = std::cmp::max(2, std::cmp::min(threads, 8));
    let barrier = std::sync::Barrier::new(threads);
    let results: std::sync::Mutex<Vec<(Ctx, u64)>> = std::sync::Mutex::new(Vec::new());
    let proto = ctx.child();
    std::thread::scope(|s| {
        for t in 0..threads {
            let f = &f;
            let barrier = &barrier;
            let results = &results;
            let proto = &proto;
            s.spawn(move || {
                let mut local = proto.child();
                local.in_mix = true;
                let mut order: Vec<usize> = (0..evs.len()).collect();
                let mut rng = crate::rng::Rng::new(seed ^ 0x636f_6e63 ^ ((t as u64) << 32));
                rng.shuffle(&mut order);
                barrier.wait();
                let t0 = Instant::now();
                let mut done = 0u64;
                for i in order {
                    if t0.elapsed() > budget {
                        break;
                    }
                    f(&mut local, &evs[i]);
                    done += 1;
                }
                local.in_mix = false;
                results.lock().unwrap().push((local, done));
            });
        }
    });
    let mut total = 0u64;
    for (c, d) in results.into_inner().unwrap() {
        total += d;
        ctx.merge(c);
    }
    total
}

/// Verdict of a replayed event: prints what the monitors said; exit code 1 when a monitor fired.
pub fn report_replay(ctx: &Ctx) -> i32 {
    let assertions: u64 = ctx.monitors.values().sum();
    if ctx.violations.is_empty() {
        println!(
            "REPLAY property={} profile={} verdict=held ({} library calls, {} monitor assertions)",
            ctx.property, ctx.profile, ctx.evaluations, assertions
        );
        0
    } else {
        for v in ctx.violations.values() {
            println!(
                "REPLAY property={} profile={} verdict=violated sig={} msg={}",
                ctx.property, ctx.profile, v.sig, v.msg
            );
        }
        1
    }
}
