//! C14 — Sop operations preserve meaning and return containment-irredundant covers
//! (DESIGN.md section 3, C14).

use volute::sop::{Cube, Sop};
use volute::Lut;

use vmon::twolevel::{all_cubes, or_sets, CubeM};
use vmon::*;

const RULE: &str = "event = one Sop expression: leaves built with from_cubes from explicit cube lists (overlapping, \
nested, duplicated cubes allowed), combined by a postfix program of & | ! (up to 4 operations); every \
intermediate result is monitored: denotes the AND/OR/complement on every assignment (value and Lut::from), \
no contradictory/duplicate/contained cube, is_zero <=> constant zero, is_one => constant one, all operator \
forms agree. n<=2: all sub-lists and all pairs; n=3: all 15 936 containment-irredundant lists for !, all \
pairs (thorough) or sampled pairs (quick); random lists to n=10 with <=12 cubes. lut = Lut->Sop->Lut \
round trip. non-trivial = some leaf has a cube with >= 1 literal and the program has an operation; \
distinct = distinct (n, leaves, program)";

#[derive(Clone, Copy, PartialEq, Eq, Debug)]
enum Tok {
    Leaf(usize),
    And,
    Or,
    Not,
}

fn prog_text(p: &[Tok]) -> String {
    p.iter()
        .map(|t| match t {
            Tok::Leaf(k) => k.to_string(),
            Tok::And => "&".into(),
            Tok::Or => "|".into(),
            Tok::Not => "!".into(),
        })
        .collect::<Vec<_>>()
        .join(" ")
}

fn parse_prog(s: &str) -> Vec<Tok> {
    s.split_whitespace()
        .map(|t| match t {
            "&" => Tok::And,
            "|" => Tok::Or,
            "!" => Tok::Not,
            k => Tok::Leaf(k.parse().expect("harness: leaf index")),
        })
        .collect()
}

fn make_ev(n: usize, leaves: &[Vec<CubeM>], prog: &[Tok]) -> Ev {
    let mut ev = Ev::new("expr", "Sop", n).st(&prog_text(prog)).int(leaves.len());
    for l in leaves {
        ev = ev.int(l.len());
        for c in l {
            ev = ev.int64(c.pos as u64).int64(c.neg as u64);
        }
    }
    ev
}

fn leaves_of(ev: &Ev) -> Vec<Vec<CubeM>> {
    let mut k = 0usize;
    let nl = ev.ints[k] as usize;
    k += 1;
    let mut out = Vec::new();
    for _ in 0..nl {
        let len = ev.ints[k] as usize;
        k += 1;
        let mut l = Vec::new();
        for _ in 0..len {
            l.push(CubeM::new(ev.ints[k] as u32, ev.ints[k + 1] as u32));
            k += 2;
        }
        out.push(l);
    }
    out
}

/// literal containment on the model: set(a) is a subset of set(b) (both non-contradictory)
fn contained(a: &CubeM, b: &CubeM) -> bool {
    (a.pos | b.pos) == a.pos && (a.neg | b.neg) == a.neg
}

struct Rec<'a> {
    ctx: &'a mut Ctx,
    ev: Option<&'a Ev>,
    failed: bool,
}

impl<'a> Rec<'a> {
    fn chk(&mut self, monitor: &str, ok: bool, key: &str, msg: impl FnOnce() -> String) {
        match self.ev {
            Some(ev) => {
                self.ctx.check(monitor, ok, ev, key, msg);
            }
            None => {
                self.ctx.checked(monitor, 1);
                if !ok {
                    self.failed = true;
                }
            }
        }
    }
}

/// Structural and semantic monitors on one result.
fn monitor_result(rec: &mut Rec, n: usize, what: &str, r: &Sop, want: &[bool], is_result_of_op: bool) {
    let size = 1usize << n;
    let vals: Vec<bool> = (0..size).map(|m| r.value(m)).collect();
    rec.chk("denotes", vals == want && r.num_vars() == n, what, || format!("{}: value() does not denote the expected function (got {:?})", what, r.to_string()));
    if r.num_vars() != n {
        // reported by `denotes` above; a result claiming another arity is not tabulated
        return;
    }
    let l = Lut::from(r);
    let lm = Model::from_blocks(n, l.blocks());
    rec.chk("denotes-via-lut", lm.bits == want && l.num_vars() == n && vmon::obs::well_formed(n, l.blocks()).is_ok(), what, || format!("{}: Lut::from(&sop) = {} (blocks {}) is not the expected function as a well-formed table", what, l, vmon::ctx::hex_of_blocks(l.blocks())));
    if !is_result_of_op {
        return;
    }
    let cubes: Vec<CubeM> = r.cubes().iter().map(CubeM::of).collect();
    let any_zero = r.cubes().iter().any(|c| c.is_zero()) || cubes.iter().any(|c| c.contradictory());
    rec.chk("no-contradictory-cube", !any_zero, what, || format!("{}: result contains a contradictory cube: {}", what, r));
    let mut dup = false;
    let mut cont = false;
    for i in 0..cubes.len() {
        for j in 0..cubes.len() {
            if i != j {
                if cubes[i] == cubes[j] {
                    dup = true;
                } else if contained(&cubes[i], &cubes[j]) {
                    cont = true;
                }
            }
        }
    }
    rec.chk("no-duplicate-cube", !dup, what, || format!("{}: result contains a duplicate cube: {}", what, r));
    rec.chk("no-contained-cube", !cont, what, || format!("{}: result contains a cube that implies another: {}", what, r));
    let zero = want.iter().all(|b| !*b);
    let one = want.iter().all(|b| *b);
    rec.chk("is-zero-exact", r.is_zero() == zero, what, || format!("{}: is_zero() = {} but the function is {}constant zero: {}", what, r.is_zero(), if zero { "" } else { "not " }, r));
    rec.chk("is-one-sound", !r.is_one() || one, what, || format!("{}: is_one() holds for a function that is not constant one: {}", what, r));
}

/// Evaluate the program on the real code with every intermediate monitored.  With `ev == None` this is
/// the allocation-free fast path that only reports whether everything held.
fn run_expr(ctx: &mut Ctx, ev: Option<&Ev>, n: usize, leaves: &[Vec<CubeM>], prog: &[Tok]) -> bool {
    let mut rec = Rec { ctx, ev, failed: false };
    let r = guard(|| {
        let mut stack: Vec<(Sop, Vec<bool>)> = Vec::new();
        let mut log: Vec<(String, Sop, Vec<bool>, bool, bool)> = Vec::new(); // what, result, want, is_op, forms_agree
        for (step, t) in prog.iter().enumerate() {
            match t {
                Tok::Leaf(k) => {
                    let cubes: Vec<Cube> = leaves[*k].iter().map(|c| c.real()).collect();
                    let s = Sop::from_cubes(n, cubes);
                    let want = or_sets(n, &leaves[*k]);
                    log.push((format!("step {} leaf {}", step, k), s.clone(), want.clone(), false, true));
                    stack.push((s, want));
                }
                Tok::Not => {
                    let (a, fa) = stack.pop().expect("harness: stack");
                    let r1 = !&a;
                    let r2 = !a.clone();
                    let want: Vec<bool> = fa.iter().map(|b| !*b).collect();
                    log.push((format!("step {} !", step), r1.clone(), want.clone(), true, r1 == r2));
                    stack.push((r1, want));
                }
                Tok::And | Tok::Or => {
                    let (b, fb) = stack.pop().expect("harness: stack");
                    let (a, fa) = stack.pop().expect("harness: stack");
                    // one object on both sides: a op a denotes a (and is irredundant like every result)
                    if step == prog.len() - 1 {
                        let same = if *t == Tok::And { &a & &a } else { &a | &a };
                        log.push((format!("step {} aliased {}", step, if *t == Tok::And { "&a & &a" } else { "&a | &a" }), same, fa.clone(), true, true));
                    }
                    let (rs, want): ([Sop; 4], Vec<bool>) = if *t == Tok::And {
                        ([&a & &b, &a & b.clone(), a.clone() & &b, a.clone() & b.clone()],
                         fa.iter().zip(fb.iter()).map(|(x, y)| *x && *y).collect())
                    } else {
                        ([&a | &b, &a | b.clone(), a.clone() | &b, a.clone() | b.clone()],
                         fa.iter().zip(fb.iter()).map(|(x, y)| *x || *y).collect())
                    };
                    let agree = rs.iter().all(|r| *r == rs[0]);
                    log.push((format!("step {} {}", step, if *t == Tok::And { "&" } else { "|" }), rs[0].clone(), want.clone(), true, agree));
                    stack.push((rs[0].clone(), want));
                }
            }
        }
        log
    });
    match r {
        Outcome::Returned(log) => {
            for (what, res, want, is_op, agree) in &log {
                rec.chk("forms-agree", *agree, what, || format!("{}: the operator forms give different results", what));
                monitor_result(&mut rec, n, what, res, want, *is_op);
            }
        }
        Outcome::Panicked(msg) => {
            rec.chk("no-panic", false, "panic", || format!("Sop expression panicked: {}", msg));
        }
    }
    !rec.failed
}

fn run(ctx: &mut Ctx, cellname: &str, n: usize, leaves: &[Vec<CubeM>], prog: &[Tok]) {
    let nontrivial = leaves.iter().flatten().any(|c| c.lits() > 0) && prog.iter().any(|t| !matches!(t, Tok::Leaf(_)));
    // digest without building the event
    let mut d = Digest::new().usize(n);
    for l in leaves {
        d = d.usize(l.len());
        for c in l {
            d = d.u64(((c.pos as u64) << 32) | c.neg as u64);
        }
    }
    for t in prog {
        d = d.usize(match t {
            Tok::Leaf(k) => 10 + k,
            Tok::And => 1,
            Tok::Or => 2,
            Tok::Not => 3,
        });
    }
    ctx.event_digest(cellname, d.get(), nontrivial, || make_ev(n, leaves, prog));
    if !run_expr(ctx, None, n, leaves, prog) {
        let ev = make_ev(n, leaves, prog);
        run_expr(ctx, Some(&ev), n, leaves, prog);
    }
}

fn exec_lut(ctx: &mut Ctx, ev: &Ev) {
    let n = ev.n;
    let mf = Model::from_blocks(n, &ev.tabs[0]);
    ctx.event(&format!("lut-roundtrip|n={}", n), ev, mf.nontrivial());
    let f = Lut::from_blocks(n, &ev.tabs[0]);
    match guard(|| {
        let s1 = Sop::from(&f);
        let s2 = Sop::from(f.clone());
        let b1 = Lut::from(&s1);
        let b2 = Lut::from(s1.clone());
        // Clone routes: destinations of other arities with shorter and longer cube lists
        let long: Vec<Cube> = (0..s1.num_cubes() + 3).map(|k| Cube::nth_var(k % (n + 2))).collect();
        let dsts = vec![Sop::zero(n), Sop::one(n + 1), Sop::from_cubes(n + 2, long.clone()), Sop::from_cubes(n + 3, long), Sop::zero(0)];
        let routes = vmon::obs::clone_routes(&s1, &dsts, &|x: &Sop, y: &Sop| x.num_vars() == y.num_vars() && x.cubes() == y.cubes() && Lut::from(x) == Lut::from(y));
        (s1, s2, b1, b2, routes)
    }) {
        Outcome::Returned((s1, s2, b1, b2, routes)) => {
            match routes {
                Ok(k) => ctx.checked("clone-routes", k as u64),
                Err(route) => ctx.violate("clone-routes", ev, "clone", format!("{} does not give a Sop equal to the source (minterm cover of {})", route, f)),
            }
            let mut got: Vec<CubeM> = s1.cubes().iter().map(CubeM::of).collect();
            let len = got.len();
            got.sort();
            got.dedup();
            let mask = (1u32 << n) - 1;
            let mut want: Vec<CubeM> = (0..1u32 << n).filter(|m| mf.bits[*m as usize]).map(|m| CubeM::new(m, !m & mask)).collect();
            want.sort();
            ctx.check("minterm-cover", got == want && len == want.len() && s1 == s2 && s1.num_vars() == n, ev, "cover", || format!("Sop::from(&lut) is not the minterm cover of {}: {}", f, s1));
            ctx.check("lut-roundtrip", b1 == f && b2 == f, ev, "roundtrip", || format!("Lut -> Sop -> Lut is not the identity on {}", f));
            ctx.check("is-zero-exact", s1.is_zero() == (mf.count_ones() == 0), ev, "lut-is_zero", || "is_zero of a minterm cover".into());
        }
        Outcome::Panicked(msg) => ctx.violate("no-panic", ev, "lut", format!("Lut <-> Sop conversion panicked: {}", msg)),
    }
}

fn exec_ctor(ctx: &mut Ctx, ev: &Ev) {
    // values built by the named constructors, used as operands; their meaning is read back through cubes()
    let n = ev.n;
    let v = ev.i(0);
    ctx.event(&format!("sop-ctor|n={}", n), ev, true);
    let r = guard(|| {
        let list = vec![Sop::zero(n), Sop::one(n), Sop::nth_var(n, v), Sop::nth_var_inv(n, v)];
        let mut out = Vec::new();
        for a in &list {
            for b in &list {
                out.push((a.clone(), b.clone(), a & b, a | b, !a, a.num_lits()));
            }
        }
        out
    });
    match r {
        Outcome::Returned(out) => {
            let mut rec = Rec { ctx, ev: Some(ev), failed: false };
            for (a, b, and, or, not, nl) in &out {
                let ca: Vec<CubeM> = a.cubes().iter().map(CubeM::of).collect();
                let cb: Vec<CubeM> = b.cubes().iter().map(CubeM::of).collect();
                let fa = or_sets(n, &ca);
                let fb = or_sets(n, &cb);
                rec.chk("denotes", (0..1usize << n).all(|m| a.value(m) == fa[m]) && *nl == ca.iter().map(|c| c.lits()).sum::<usize>(), "ctor", || format!("constructor value {} does not evaluate to the OR of its cubes", a));
                let wand: Vec<bool> = fa.iter().zip(fb.iter()).map(|(x, y)| *x && *y).collect();
                let wor: Vec<bool> = fa.iter().zip(fb.iter()).map(|(x, y)| *x || *y).collect();
                let wnot: Vec<bool> = fa.iter().map(|x| !*x).collect();
                monitor_result(&mut rec, n, "ctor &", and, &wand, true);
                monitor_result(&mut rec, n, "ctor |", or, &wor, true);
                monitor_result(&mut rec, n, "ctor !", not, &wnot, true);
            }
        }
        Outcome::Panicked(msg) => ctx.violate("no-panic", ev, "sop-ctor", format!("Sop constructor/operator panicked: {}", msg)),
    }
}

fn exec(ctx: &mut Ctx, ev: &Ev) {
    match ev.op.as_str() {
        "sop-ctor" => exec_ctor(ctx, ev),
        "expr" => {
            let leaves = leaves_of(ev);
            let prog = parse_prog(&ev.strs[0]);
            ctx.event("replay", ev, true);
            run_expr(ctx, Some(ev), ev.n, &leaves, &prog);
        }
        "lut" => exec_lut(ctx, ev),
        other => panic!("harness: unknown op {}", other),
    }
}

/// All containment-irredundant lists (antichains under implication) of the non-zero cubes over n variables.
fn antichains(n: usize) -> Vec<Vec<CubeM>> {
    let cubes = all_cubes(n);
    let mut out = Vec::new();
    fn rec(cubes: &[CubeM], start: usize, cur: &mut Vec<CubeM>, out: &mut Vec<Vec<CubeM>>) {
        out.push(cur.clone());
        for i in start..cubes.len() {
            let c = cubes[i];
            if cur.iter().all(|d| !contained(&c, d) && !contained(d, &c)) {
                cur.push(c);
                rec(cubes, i + 1, cur, out);
                cur.pop();
            }
        }
    }
    rec(&cubes, 0, &mut Vec::new(), &mut out);
    out
}

fn random_cube(n: usize, rng: &mut Rng, max_lits: usize) -> CubeM {
    let mut c = CubeM::new(0, 0);
    for _ in 0..rng.below(max_lits + 1) {
        let v = rng.below(n.max(1));
        if n == 0 {
            break;
        }
        if c.support() & (1 << v) != 0 {
            continue;
        }
        if rng.bool() {
            c.pos |= 1 << v;
        } else {
            c.neg |= 1 << v;
        }
    }
    c
}

fn random_list(n: usize, rng: &mut Rng, max_cubes: usize) -> Vec<CubeM> {
    let k = rng.below(max_cubes + 1);
    let mut l: Vec<CubeM> = Vec::new();
    for _ in 0..k {
        let c = match rng.below(6) {
            // duplicates and nested cubes on purpose
            0 if !l.is_empty() => *rng.pick(&l),
            1 if !l.is_empty() => {
                let mut d = *rng.pick(&l);
                if n > 0 {
                    let v = rng.below(n);
                    if d.support() & (1 << v) == 0 {
                        if rng.bool() {
                            d.pos |= 1 << v;
                        } else {
                            d.neg |= 1 << v;
                        }
                    }
                }
                d
            }
            _ => random_cube(n, rng, std::cmp::min(n, 5)),
        };
        l.push(c);
    }
    l
}

/// size of the De Morgan product of a list (the `!` operator multiplies the literal counts)
fn not_cost(l: &[CubeM]) -> f64 {
    l.iter().map(|c| std::cmp::max(1, c.lits()) as f64).product()
}

fn gen_expr(rng: &mut Rng, ops: usize, next_leaf: &mut usize, leaves: usize, out: &mut Vec<Tok>) {
    if ops == 0 {
        out.push(Tok::Leaf(*next_leaf % leaves));
        *next_leaf += 1;
    } else if rng.chance(1, 3) {
        gen_expr(rng, ops - 1, next_leaf, leaves, out);
        out.push(Tok::Not);
    } else {
        let l = rng.below(ops);
        gen_expr(rng, l, next_leaf, leaves, out);
        gen_expr(rng, ops - 1 - l, next_leaf, leaves, out);
        out.push(if rng.bool() { Tok::And } else { Tok::Or });
    }
}

/// random postfix program with exactly `ops` operations over `leaves` leaves
fn random_prog(rng: &mut Rng, leaves: usize, ops: usize) -> Vec<Tok> {
    let mut out = Vec::new();
    let mut next = 0usize;
    gen_expr(rng, ops, &mut next, leaves, &mut out);
    out
}

fn main() {
    silence_panics();
    let cli = Cli::parse();
    let mut ctx = cli.ctx("C14");
    if let Some(ev) = cli.replay_event() {
        exec(&mut ctx, &ev);
        std::process::exit(vmon::ctx::report_replay(&ctx));
    }
    let thorough = ctx.thorough();
    let seed = cli.seed;
    let anti3 = antichains(3);
    ctx.bump("irredundant-lists-n3", anti3.len() as u64);
    let mut shards: Vec<(&str, usize, usize, usize)> = Vec::new();
    for n in 0..=2usize {
        let chunks = if n == 2 { 16 } else { 1 };
        for c in 0..chunks {
            shards.push(("sublists", n, c, chunks));
        }
    }
    let c3 = if thorough { 256 } else { 32 };
    for c in 0..c3 {
        shards.push(("n3", 3, c, c3));
    }
    for c in 0..32 {
        shards.push(("random", 10, c, 32));
    }
    for c in 0..8 {
        shards.push(("big", 10, c, 8));
    }
    // the slow shards first
    shards.sort_by_key(|s| if s.0 == "big" { 0 } else { 1 });
    // debugging aid: VMON_ONLY=<shard kind> restricts the run (the coverage requirements then fail: inconclusive)
    if let Ok(only) = std::env::var("VMON_ONLY") {
        shards.retain(|s| s.0 == only);
    }
    for n in 0..=if thorough { 4usize } else { 4 } {
        shards.push(("lut", n, 0, 1));
    }
    run_sharded(&mut ctx, cli.threads, shards.len(), |ctx, k| {
        let (kind, n, c, chunks) = shards[k];
        let mut rng = Rng::new(seed ^ ((n as u64) << 10) ^ ((c as u64) << 18) ^ ((kind.len() as u64) << 30));
        match kind {
            "sublists" => {
                let cubes = all_cubes(n);
                let total = 1usize << cubes.len();
                let lists: Vec<Vec<CubeM>> = (0..total)
                    .map(|mask| cubes.iter().enumerate().filter(|(i, _)| (mask >> i) & 1 == 1).map(|(_, c)| *c).collect())
                    .collect();
                for (i, a) in lists.iter().enumerate() {
                    if i % chunks != c {
                        continue;
                    }
                    run(ctx, &format!("not|n={}|all-sublists", n), n, &[a.clone()], &[Tok::Leaf(0), Tok::Not]);
                    for b in &lists {
                        run(ctx, &format!("and|n={}|all-sublist-pairs", n), n, &[a.clone(), b.clone()], &[Tok::Leaf(0), Tok::Leaf(1), Tok::And]);
                        run(ctx, &format!("or|n={}|all-sublist-pairs", n), n, &[a.clone(), b.clone()], &[Tok::Leaf(0), Tok::Leaf(1), Tok::Or]);
                    }
                }
                ctx.exhaustive.insert(format!("all sub-lists of the cubes and all pairs of them, n={}", n), true);
            }
            "n3" => {
                for (i, a) in anti3.iter().enumerate() {
                    if i % chunks != c {
                        continue;
                    }
                    run(ctx, "not|n=3|all-irredundant-lists", 3, &[a.clone()], &[Tok::Leaf(0), Tok::Not]);
                    if thorough {
                        for b in anti3.iter() {
                            run(ctx, "and|n=3|all-irredundant-pairs", 3, &[a.clone(), b.clone()], &[Tok::Leaf(0), Tok::Leaf(1), Tok::And]);
                            run(ctx, "or|n=3|all-irredundant-pairs", 3, &[a.clone(), b.clone()], &[Tok::Leaf(0), Tok::Leaf(1), Tok::Or]);
                        }
                    } else {
                        for _ in 0..60 {
                            let b = rng.pick(&anti3);
                            run(ctx, "and|n=3|sampled-irredundant-pairs", 3, &[a.clone(), b.clone()], &[Tok::Leaf(0), Tok::Leaf(1), Tok::And]);
                            run(ctx, "or|n=3|sampled-irredundant-pairs", 3, &[a.clone(), b.clone()], &[Tok::Leaf(0), Tok::Leaf(1), Tok::Or]);
                        }
                    }
                    // redundant partner
                    let b = random_list(3, &mut rng, 8);
                    run(ctx, "and|n=3|redundant", 3, &[a.clone(), b.clone()], &[Tok::Leaf(0), Tok::Leaf(1), Tok::And]);
                    run(ctx, "or|n=3|redundant", 3, &[a.clone(), b], &[Tok::Leaf(0), Tok::Leaf(1), Tok::Or]);
                }
                ctx.exhaustive.insert("complement of every containment-irredundant cube list, n=3".into(), true);
                if thorough {
                    ctx.exhaustive.insert("AND/OR of every pair of containment-irredundant cube lists, n=3".into(), true);
                }
            }
            "random" => {
                let reps = if thorough { 20000 } else { 400 };
                for _ in 0..reps {
                    let nn = rng.range(0, 10);
                    let a = random_list(nn, &mut rng, 12);
                    let b = random_list(nn, &mut rng, 12);
                    run(ctx, &format!("and|n={}|random", nn), nn, &[a.clone(), b.clone()], &[Tok::Leaf(0), Tok::Leaf(1), Tok::And]);
                    run(ctx, &format!("or|n={}|random", nn), nn, &[a.clone(), b.clone()], &[Tok::Leaf(0), Tok::Leaf(1), Tok::Or]);
                    if not_cost(&a) <= 20000.0 {
                        run(ctx, &format!("not|n={}|random", nn), nn, &[a.clone()], &[Tok::Leaf(0), Tok::Not]);
                    } else {
                        ctx.bump("not-operands-skipped-as-too-large", 1);
                    }
                    // lists made of full minterms only (what a conversion from a table produces), in random order and
                    // with repeated entries — a redundant list is a legitimate argument of from_cubes
                    {
                        let nm = rng.range(1, 10);
                        let mask = (1u32 << nm) - 1;
                        let mut mk = |rng: &mut Rng| -> Vec<CubeM> {
                            let mut l: Vec<CubeM> = (0..rng.range(1, 40))
                                .map(|_| {
                                    let m = rng.next_u64() as u32 & mask;
                                    CubeM::new(m, !m & mask)
                                })
                                .collect();
                            for _ in 0..rng.below(4) {
                                let d = *rng.pick(&l);
                                l.push(d);
                                if rng.chance(1, 3) {
                                    l.push(d);
                                }
                            }
                            rng.shuffle(&mut l);
                            l
                        };
                        let (ma, mb) = (mk(&mut rng), mk(&mut rng));
                        run(ctx, "expr|minterm-lists", nm, &[ma, mb], &[Tok::Leaf(0), Tok::Leaf(1), Tok::Or, Tok::Leaf(0), Tok::And]);
                    }
                    // nested expressions, up to 4 operations, small leaves so that ! stays bounded
                    let ne = rng.range(0, 6);
                    let nl = rng.range(1, 4);
                    let leaves: Vec<Vec<CubeM>> = (0..nl).map(|_| random_list(ne, &mut rng, 4)).collect();
                    let ops = rng.range(1, 4);
                    let prog = random_prog(&mut rng, nl, ops);
                    let nops = prog.iter().filter(|t| !matches!(t, Tok::Leaf(_))).count();
                    run(ctx, &format!("expr|ops={}", std::cmp::min(nops, 4)), ne, &leaves, &prog);
                }
            }
            "big" => {
                // (!a) & (!b) with complements of a few hundred cubes each: more than 10^4 cube products in one
                // `&`, the regime where an implementation has to batch / compact its intermediate results.
                // Operands are drawn until the product count lies in a window that keeps one event ~1 s.
                let reps = if thorough { 120 } else { 4 };
                for rep in 0..reps {
                    if rep % 4 == 3 {
                        // products that are all non-zero, pairwise disjoint and therefore all essential: a = the
                        // minterms over a set A of variables, listed k times (a redundant list is a legitimate
                        // argument of from_cubes), b = the minterms over a disjoint set B; the same product cube
                        // then comes back k times, |a|/k rows apart, and none of them may get lost
                        let na = rng.range(5, 7);
                        let nb = rng.range(6, 7);
                        let nn = na + nb;
                        let k = rng.range(2, 3);
                        let mut vars: Vec<usize> = (0..nn).collect();
                        rng.shuffle(&mut vars);
                        let minterms = |vs: &[usize]| -> Vec<CubeM> {
                            (0..1u32 << vs.len())
                                .map(|m| {
                                    let mut cb = CubeM::new(0, 0);
                                    for (j, v) in vs.iter().enumerate() {
                                        if (m >> j) & 1 == 1 {
                                            cb.pos |= 1 << v;
                                        } else {
                                            cb.neg |= 1 << v;
                                        }
                                    }
                                    cb
                                })
                                .collect()
                        };
                        let one = minterms(&vars[..na]);
                        let mut a: Vec<CubeM> = Vec::new();
                        for _ in 0..k {
                            a.extend(one.iter().copied());
                        }
                        let b = minterms(&vars[na..]);
                        ctx.bump("big-product-events", 1);
                        ctx.bump("big-product-cube-products", (a.len() * b.len()) as u64);
                        let (l, r) = if rng.bool() { (a, b) } else { (b, a) };
                        // and the OR of the two long lists, and of a list with itself
                        run(ctx, "expr|big-or", nn, &[l.clone(), r.clone()], &[Tok::Leaf(0), Tok::Leaf(1), Tok::Or, Tok::Leaf(0), Tok::Or]);
                        run(ctx, "expr|big-disjoint", nn, &[l, r], &[Tok::Leaf(0), Tok::Leaf(1), Tok::And]);
                        continue;
                    }
                    let nn = rng.range(9, 10);
                    let mut tries = 0;
                    loop {
                        tries += 1;
                        let mk = |rng: &mut Rng| -> Vec<CubeM> {
                            (0..rng.range(7, 12))
                                .map(|_| {
                                    // dense cubes: most variables appear (complements are then sums of many
                                    // literals whose products repeat the same cubes over and over)
                                    let k = rng.range(nn - 4, nn - 1);
                                    let mut vars: Vec<usize> = (0..nn).collect();
                                    rng.shuffle(&mut vars);
                                    let mut cb = CubeM::new(0, 0);
                                    for v in vars.iter().take(k) {
                                        if rng.bool() {
                                            cb.pos |= 1 << v;
                                        } else {
                                            cb.neg |= 1 << v;
                                        }
                                    }
                                    cb
                                })
                                .collect()
                        };
                        let a = mk(&mut rng);
                        // every other event squares one operand: (!a) & (!a) — every cube product then occurs
                        // twice, (i, j) and (j, i), far apart in the enumeration of the products
                        let square = rep % 2 == 1;
                        let b = if square { a.clone() } else { mk(&mut rng) };
                        let sizes = guard(|| {
                            let sa = !&Sop::from_cubes(nn, a.iter().map(|c| c.real()).collect());
                            let sb = !&Sop::from_cubes(nn, b.iter().map(|c| c.real()).collect());
                            sa.num_cubes() * sb.num_cubes()
                        });
                        let prod = match sizes {
                            Outcome::Returned(p) => p,
                            Outcome::Panicked(_) => 0,
                        };
                        if (17_000..=70_000).contains(&prod) || tries >= 60 {
                            ctx.bump("big-product-events", 1);
                            ctx.bump("big-product-cube-products", prod as u64);
                            if square {
                                run(ctx, "expr|big-square", nn, &[a], &[Tok::Leaf(0), Tok::Not, Tok::Leaf(0), Tok::Not, Tok::And]);
                            } else {
                                run(ctx, "expr|big-product", nn, &[a, b], &[Tok::Leaf(0), Tok::Not, Tok::Leaf(1), Tok::Not, Tok::And]);
                            }
                            break;
                        }
                    }
                }
            }
            _ => {
                for v in 0..n {
                    exec_ctor(ctx, &Ev::new("sop-ctor", "Sop", n).int(v));
                    exec_ctor(ctx, &Ev::new("sop-ctor", "Sop", n + 5).int(v + 5));
                }
                let count: u64 = 1u64 << (1u64 << n);
                for x in 0..count {
                    if n == 4 && !thorough && x % 16 != 0 {
                        continue;
                    }
                    exec_lut(ctx, &Ev::new("lut", "Sop", n).tab(&[x]));
                }
                let mut r2 = Rng::new(seed ^ 0x1234);
                for nn in 5..=10usize {
                    for _ in 0..if thorough { 12 } else { 1 } {
                        // every family of structured tables (one-hot words, few minterms, staircases, ...)
                        for fam in vmon::gen::Fam::ALL {
                            let f = vmon::gen::gen(fam, nn, &mut r2);
                            exec_lut(ctx, &Ev::new("lut", "Sop", nn).tab(&f));
                        }
                    }
                }
            }
        }
    });
    // hidden-state monitor: sampled events of all shards again, mixed, on one thread (ctx::run_mix)
    run_mix(&mut ctx, seed, |c, e| exec(c, e));
    // and concurrently: the same sample on several threads at once (shared state inside the library)
    run_mix_concurrent(&mut ctx, seed, cli.threads, |c, e| exec(c, e));
    let mut required: Vec<String> = Vec::new();
    for n in 0..=2 {
        required.push(format!("not|n={}|all-sublists", n));
        required.push(format!("and|n={}|all-sublist-pairs", n));
        required.push(format!("or|n={}|all-sublist-pairs", n));
    }
    required.push("not|n=3|all-irredundant-lists".into());
    required.push("and|n=3|redundant".into());
    for n in 4..=10 {
        required.push(format!("and|n={}|random", n));
        required.push(format!("or|n={}|random", n));
        required.push(format!("not|n={}|random", n));
        required.push(format!("lut-roundtrip|n={}", n));
    }
    for ops in 1..=4 {
        required.push(format!("expr|ops={}", ops));
    }
    required.push("expr|big-product".into());
    required.push("expr|big-square".into());
    required.push("expr|big-disjoint".into());
    required.push("expr|big-or".into());
    required.push("expr|minterm-lists".into());
    cli.finish(&ctx, &required, RULE);
}
