//! C15 — Lut to Esop conversion yields the unique positive-polarity Reed-Muller form
//! (DESIGN.md section 3, C15).

use volute::sop::{Cube, Esop};
use volute::Lut;

use vmon::gen::{self, Fam};
use vmon::twolevel::{xor_sets, CubeM};
use vmon::*;

const RULE: &str = "events: pprm = Esop::from(&lut)/from(lut) of one function compared with the algebraic normal form \
computed by definition (a_S = XOR of f over the assignments contained in S): cubes all-positive, pairwise \
distinct, exactly the S with a_S = 1, equal Esops for equal functions built by different histories, and \
Lut::from(esop) == f; esop-ops = the four ^ forms and two ! forms on Esops built from arbitrary (mixed polarity, \
repeated) cube lists, denoting XOR / complement on every assignment, with is_zero/is_one sound. All functions \
n<=4; random/structured functions to n=10. non-trivial = function neither constant nor literal (pprm), some \
cube with a literal (esop-ops); distinct = distinct (op, n, table / cube lists)";

fn exec_pprm(ctx: &mut Ctx, ev: &Ev) {
    let n = ev.n;
    let mf = Model::from_blocks(n, &ev.tabs[0]);
    ctx.event(&format!("pprm|n={}", n), ev, mf.nontrivial());
    let f = Lut::from_blocks(n, &ev.tabs[0]);
    // the same function with a different history: built bit by bit, then double-complemented
    let r = guard(|| {
        let mut g = Lut::zero(n);
        for m in 0..(1usize << n) {
            if mf.bits[m] {
                g.set_bit(m);
            }
        }
        let g = !!g;
        let e1 = Esop::from(&f);
        let e2 = Esop::from(f.clone());
        let e3 = Esop::from(&g);
        let back1 = Lut::from(&e1);
        let back2 = Lut::from(e1.clone());
        let vals: Vec<bool> = (0..1usize << n).map(|m| e1.value(m)).collect();
        (e1, e2, e3, back1, back2, vals)
    });
    let (e1, e2, e3, back1, back2, vals) = match r {
        Outcome::Returned(x) => x,
        Outcome::Panicked(msg) => {
            ctx.violate("no-panic", ev, "pprm", format!("Lut -> Esop conversion panicked: {}", msg));
            return;
        }
    };
    let anf = mf.anf();
    let cubes: Vec<CubeM> = e1.cubes().iter().map(CubeM::of).collect();
    ctx.check("all-positive", cubes.iter().all(|c| c.neg == 0) && e1.cubes().iter().all(|c| !c.is_zero()), ev, "positive", || format!("Esop of {} has a negative literal or a zero cube: {}", f, e1));
    let mut sorted: Vec<u32> = cubes.iter().map(|c| c.pos).collect();
    let len = sorted.len();
    sorted.sort();
    sorted.dedup();
    ctx.check("cubes-distinct", sorted.len() == len, ev, "distinct", || format!("Esop of {} repeats a cube: {}", f, e1));
    let want: Vec<u32> = (0..1u32 << n).filter(|s| anf[*s as usize]).collect();
    ctx.check("anf-coefficients", sorted == want, ev, "anf", || format!("Esop of {} is {} but the ANF has {} monomials {:x?}", f, e1, want.len(), &want[..std::cmp::min(8, want.len())]));
    ctx.check("equal-functions-equal-esops", e1 == e2 && e1 == e3, ev, "canonical", || "equal functions built by different histories give different Esops".into());
    ctx.check("esop-roundtrip", back1 == f && back2 == f && vals == mf.bits, ev, "roundtrip", || format!("Lut -> Esop -> Lut is not the identity on {}", f));
    ctx.check("esop-is-zero-sound", !e1.is_zero() || mf.count_ones() == 0, ev, "is_zero", || "is_zero on a non-zero function".into());
    ctx.check("esop-is-one-sound", !e1.is_one() || mf.count_ones() == mf.size(), ev, "is_one", || "is_one on a non-one function".into());
}

fn lists_of(ev: &Ev) -> (Vec<CubeM>, Vec<CubeM>) {
    let la = ev.ints[0] as usize;
    let all: Vec<CubeM> = (0..(ev.ints.len() - 1) / 2).map(|k| CubeM::new(ev.ints[1 + 2 * k] as u32, ev.ints[2 + 2 * k] as u32)).collect();
    (all[..la].to_vec(), all[la..].to_vec())
}

fn ops_ev(n: usize, a: &[CubeM], b: &[CubeM]) -> Ev {
    let mut ev = Ev::new("esop-ops", "Esop", n).int(a.len());
    for c in a.iter().chain(b.iter()) {
        ev = ev.int64(c.pos as u64).int64(c.neg as u64);
    }
    ev
}

fn exec_ops(ctx: &mut Ctx, ev: &Ev) {
    let n = ev.n;
    let (la, lb) = lists_of(ev);
    ctx.event(&format!("esop-ops|n={}", n), ev, la.iter().chain(lb.iter()).any(|c| c.lits() > 0));
    let r = guard(|| {
        let a = Esop::from_cubes(n, la.iter().map(|c| c.real()).collect::<Vec<Cube>>());
        let b = Esop::from_cubes(n, lb.iter().map(|c| c.real()).collect::<Vec<Cube>>());
        let self_xor = &a ^ &a;
        let mut self_vals: Vec<bool> = (0..1usize << n).map(|m| self_xor.value(m)).collect();
        // the result of the aliased form must be a form over the same variables: its arity, its table
        // (the table only if the arity is right: a result claiming 300 variables must not be tabulated)
        let arity_ok = self_xor.num_vars() == n;
        self_vals.push(!arity_ok || Lut::from(&self_xor) != Lut::zero(n));
        let xs = [&a ^ &b, &a ^ b.clone(), a.clone() ^ &b, a.clone() ^ b.clone()];
        let ns = [!&a, !a.clone()];
        let va: Vec<bool> = (0..1usize << n).map(|m| a.value(m)).collect();
        let la_ = Lut::from(&a);
        let la_v = Lut::from(a.clone());
        let long: Vec<Cube> = (0..la.len() + lb.len() + 3).map(|k| Cube::nth_var(k % (n + 2))).collect();
        let dsts = vec![b.clone(), Esop::zero(n + 1), Esop::one(n + 2), Esop::from_cubes(n + 2, long.clone()), Esop::from_cubes(n + 3, long), Esop::zero(0)];
        let routes = vmon::obs::clone_routes(&a, &dsts, &|x: &Esop, y: &Esop| x.num_vars() == y.num_vars() && x.cubes() == y.cubes() && Lut::from(x) == Lut::from(y));
        (a.is_zero(), a.is_one(), a.num_vars(), a.num_cubes(), va, la_, la_v, xs, ns, self_vals, routes)
    });
    let (isz, iso, nv, nc, va, lut_a, lut_av, xs, ns, self_vals, routes) = match r {
        Outcome::Returned(x) => x,
        Outcome::Panicked(msg) => {
            ctx.violate("no-panic", ev, "esop-ops", format!("Esop operation panicked: {}", msg));
            return;
        }
    };
    match routes {
        Ok(k) => ctx.checked("esop-clone-routes", k as u64),
        Err(route) => ctx.violate("esop-clone-routes", ev, "clone", format!("{} does not give an Esop equal to the source {:?} (n={})", route, la, n)),
    }
    let fa = xor_sets(n, &la);
    let fb = xor_sets(n, &lb);
    ctx.check("esop-value-parity", va == fa && nv == n && nc == la.len(), ev, "value", || "Esop::value is not the parity of its cubes".into());
    ctx.check("esop-to-lut", Model::from_blocks(n, lut_a.blocks()).bits == fa && lut_a.num_vars() == n && vmon::obs::well_formed(n, lut_a.blocks()).is_ok(), ev, "lut", || "Lut::from(&esop) is not the tabulated XOR".into());
    ctx.check("esop-to-lut", lut_av == lut_a, ev, "lut-by-value", || "Lut::from(esop), by value, differs from Lut::from(&esop)".into());
    ctx.check("esop-is-zero-sound", !isz || fa.iter().all(|b| !*b), ev, "is_zero", || "is_zero on a non-zero Esop".into());
    ctx.check("esop-is-one-sound", !iso || fa.iter().all(|b| *b), ev, "is_one", || "is_one on a non-one Esop".into());
    ctx.check("esop-xor-semantic", self_vals.iter().all(|b| !*b), ev, "aliased &a ^ &a", || "&a ^ &a (one object on both sides) is not the constant zero over the same variables (value, num_vars or Lut::from)".into());
    let want_x: Vec<bool> = fa.iter().zip(fb.iter()).map(|(x, y)| x != y).collect();
    for (k, x) in xs.iter().enumerate() {
        let got: Vec<bool> = (0..1usize << n).map(|m| x.value(m)).collect();
        ctx.check("esop-xor-semantic", got == want_x && x.num_vars() == n, ev, &format!("xor-form-{}", k), || format!("form {} of a ^ b does not denote the XOR", k));
        ctx.check("esop-is-zero-sound", !x.is_zero() || want_x.iter().all(|b| !*b), ev, "xor-is_zero", || "is_zero on a non-zero a ^ b".into());
        ctx.check("esop-is-one-sound", !x.is_one() || want_x.iter().all(|b| *b), ev, "xor-is_one", || "is_one on a non-one a ^ b".into());
    }
    ctx.check("esop-forms-agree", xs.iter().all(|x| *x == xs[0]) && ns[0] == ns[1], ev, "forms", || "the ^ / ! forms differ".into());
    let want_n: Vec<bool> = fa.iter().map(|b| !*b).collect();
    let got_n: Vec<bool> = (0..1usize << n).map(|m| ns[0].value(m)).collect();
    ctx.check("esop-not-semantic", got_n == want_n, ev, "not", || "!a does not denote the complement".into());
    ctx.check("esop-is-zero-sound", !ns[0].is_zero() || want_n.iter().all(|b| !*b), ev, "not-is_zero", || "is_zero on a non-zero !a".into());
    ctx.check("esop-is-one-sound", !ns[0].is_one() || want_n.iter().all(|b| *b), ev, "not-is_one", || "is_one on a non-one !a".into());
}

/// operands of a chain: ints = [count, then per operand: 0, table index | 1, length, (pos, neg)*]
enum Operand {
    Table(Vec<u64>),
    List(Vec<CubeM>),
}

fn chain_operands(ev: &Ev) -> Vec<Operand> {
    let mut out = Vec::new();
    let k = ev.ints[0] as usize;
    let mut i = 1;
    for _ in 0..k {
        if ev.ints[i] == 0 {
            out.push(Operand::Table(ev.tabs[ev.ints[i + 1] as usize].clone()));
            i += 2;
        } else {
            let len = ev.ints[i + 1] as usize;
            let l = (0..len).map(|j| CubeM::new(ev.ints[i + 2 + 2 * j] as u32, ev.ints[i + 3 + 2 * j] as u32)).collect();
            out.push(Operand::List(l));
            i += 2 + 2 * len;
        }
    }
    out
}

fn chain_ev(n: usize, ops: &[Operand]) -> Ev {
    let mut ev = Ev::new("esop-chain", "Esop", n).int(ops.len());
    let mut t = 0;
    for o in ops {
        match o {
            Operand::Table(b) => {
                ev = ev.int(0).int(t).tab(b);
                t += 1;
            }
            Operand::List(l) => {
                ev = ev.int(1).int(l.len());
                for c in l {
                    ev = ev.int64(c.pos as u64).int64(c.neg as u64);
                }
            }
        }
    }
    ev
}

/// `((a ^ b) ^ c) ^ ...`: long accumulations, operands converted from tables or given as cube lists with repeated
/// cubes; after every step the accumulated form must denote the XOR of the operands so far.
fn exec_chain(ctx: &mut Ctx, ev: &Ev) {
    let n = ev.n;
    let ops = chain_operands(ev);
    let total_cubes: usize = ops.iter().map(|o| match o { Operand::Table(_) => 1usize << n.saturating_sub(1), Operand::List(l) => l.len() }).sum();
    ctx.event(&format!("esop-chain|n={}|{}", n, if total_cubes > 256 { "over-256-cubes" } else { "small" }), ev, true);
    let meanings: Vec<Vec<bool>> = ops.iter().map(|o| match o {
        Operand::Table(b) => Model::from_blocks(n, b).bits,
        Operand::List(l) => xor_sets(n, l),
    }).collect();
    let r = guard(|| {
        let real: Vec<Esop> = ops.iter().map(|o| match o {
            Operand::Table(b) => Esop::from(&Lut::from_blocks(n, b)),
            Operand::List(l) => Esop::from_cubes(n, l.iter().map(|c| c.real()).collect::<Vec<Cube>>()),
        }).collect();
        let mut steps: Vec<(Vec<bool>, usize, bool, bool)> = Vec::new();
        let mut acc = real[0].clone();
        for (k, o) in real.iter().enumerate().skip(1) {
            acc = match k % 4 {
                0 => &acc ^ o,
                1 => acc ^ o,
                2 => &acc ^ o.clone(),
                _ => acc ^ o.clone(),
            };
            steps.push(((0..1usize << n).map(|m| acc.value(m)).collect(), acc.num_cubes(), acc.is_zero(), acc.is_one()));
        }
        // a result of the wrong arity is reported below (empty table), never tabulated
        let l = if acc.num_vars() == n { Lut::from(&acc) } else { Lut::zero(0) };
        // the owning conversion is a route of its own (`From<Esop> for Lut`)
        let lv = if acc.num_vars() == n { Lut::from(acc) } else { Lut::zero(0) };
        (steps, l, lv)
    });
    match r {
        Outcome::Returned((steps, l, lv)) => {
            let mut want = meanings[0].clone();
            for (k, (vals, cubes, isz, iso)) in steps.iter().enumerate() {
                for (w, m) in want.iter_mut().zip(meanings[k + 1].iter()) {
                    *w ^= *m;
                }
                ctx.check("esop-xor-semantic", *vals == want, ev, "chain", || {
                    format!("after {} operands of a ^-chain (n={}, {} cubes accumulated) the form does not denote the XOR of the operands", k + 2, n, cubes)
                });
                ctx.check("esop-is-zero-sound", !*isz || want.iter().all(|b| !*b), ev, "chain-is_zero", || "is_zero on a non-zero chain result".into());
                ctx.check("esop-is-one-sound", !*iso || want.iter().all(|b| *b), ev, "chain-is_one", || "is_one on a non-one chain result".into());
            }
            ctx.check("esop-to-lut", l.num_vars() == n && Model::from_blocks(n, l.blocks()).bits == want, ev, "chain-lut", || "Lut::from(&chain result) is not the XOR of the operands".into());
            ctx.check("esop-to-lut", lv.num_vars() == n && Model::from_blocks(n, lv.blocks()).bits == want, ev, "chain-lut-by-value", || "Lut::from(chain result), by value, is not the XOR of the operands".into());
        }
        Outcome::Panicked(msg) => ctx.violate("no-panic", ev, "esop-chain", format!("Esop ^-chain panicked: {}", msg)),
    }
}

/// Esops over all 32 variables (cube lists may then contain the empty cube `Cube::zero()`, the cube without
/// literals, and cubes with 32 literals): value, `^`, `!`, is_zero / is_one judged on sampled assignments —
/// is_zero (is_one) is refuted by one assignment on which the parity of the cubes is true (false).
fn exec_wide(ctx: &mut Ctx, ev: &Ev) {
    let (la, lb) = lists_of(ev);
    ctx.event("esop-wide|n=32", ev, true);
    let mut rng = Rng::new(ev.digest());
    // assignments: corners, around each cube, random
    let mut asg: Vec<u64> = vec![0, u32::MAX as u64, 0x5555_5555, 0xaaaa_aaaa, 1, 0x8000_0000];
    for c in la.iter().chain(lb.iter()) {
        asg.push(c.pos as u64);
        asg.push((c.pos | !c.neg) as u64 & 0xffff_ffff);
        asg.push((c.pos as u64) ^ (1 << rng.below(32)));
    }
    for _ in 0..40 {
        asg.push(rng.next_u64() & 0xffff_ffff);
    }
    let par = |l: &[CubeM], m: u64| l.iter().filter(|c| !c.contradictory() && c.sat(m)).count() % 2 == 1;
    let r = guard(|| {
        let mk = |l: &[CubeM]| Esop::from_cubes(32, l.iter().map(|c| if c.contradictory() { Cube::zero() } else { c.real() }).collect::<Vec<Cube>>());
        let a = mk(&la);
        let b = mk(&lb);
        let x = &a ^ &b;
        let na = !&a;
        let rows: Vec<(bool, bool, bool)> = asg.iter().map(|m| (a.value(*m as usize), x.value(*m as usize), na.value(*m as usize))).collect();
        (rows, [a.is_zero(), x.is_zero(), na.is_zero()], [a.is_one(), x.is_one(), na.is_one()], a.num_vars(), x.num_vars(), na.num_vars())
    });
    match r {
        Outcome::Returned((rows, zeros, ones, nv, nx, nn)) => {
            ctx.check("esop-value-parity", nv == 32 && nx == 32 && nn == 32, ev, "wide-arity", || "a 32-variable Esop (or its ^ / !) reports another number of variables".into());
            let want: Vec<(bool, bool, bool)> = asg.iter().map(|m| (par(&la, *m), par(&la, *m) != par(&lb, *m), !par(&la, *m))).collect();
            ctx.checked("esop-value-parity", rows.len() as u64);
            let bad = rows.iter().zip(want.iter()).position(|(g, w)| g != w);
            ctx.check("esop-value-parity", bad.is_none(), ev, "wide-value", || {
                let i = bad.unwrap();
                format!("32-variable Esop {:?} ^ {:?}: (a, a^b, !a) evaluate to {:?} on assignment {:#x}, expected {:?}", la, lb, rows[i], asg[i], want[i])
            });
            for (k, name) in ["a", "a^b", "!a"].iter().enumerate() {
                let vals: Vec<bool> = want.iter().map(|w| [w.0, w.1, w.2][k]).collect();
                ctx.check("esop-is-zero-sound", !zeros[k] || vals.iter().all(|v| !*v), ev, &format!("wide-is_zero-{}", name), || format!("is_zero holds for {} of the 32-variable Esop {:?} (^ {:?}) which is true on some assignment", name, la, lb));
                ctx.check("esop-is-one-sound", !ones[k] || vals.iter().all(|v| *v), ev, &format!("wide-is_one-{}", name), || format!("is_one holds for {} of the 32-variable Esop {:?} (^ {:?}) which is false on some assignment", name, la, lb));
            }
        }
        Outcome::Panicked(msg) => ctx.violate("no-panic", ev, "esop-wide", format!("operation on 32-variable Esops panicked: {}", msg)),
    }
}

fn exec_ctor(ctx: &mut Ctx, ev: &Ev) {
    // values built by the named constructors; their meaning is read back through cubes()
    let n = ev.n;
    let v = ev.i(0);
    ctx.event(&format!("esop-ctor|n={}", n), ev, true);
    let r = guard(|| {
        let list = vec![Esop::zero(n), Esop::one(n), Esop::nth_var(n, v), Esop::nth_var_inv(n, v)];
        let mut out = Vec::new();
        for e in &list {
            let cubes: Vec<CubeM> = e.cubes().iter().map(CubeM::of).collect();
            let vals: Vec<bool> = (0..1usize << n).map(|m| e.value(m)).collect();
            let x = e ^ &list[3];
            let xv: Vec<bool> = (0..1usize << n).map(|m| x.value(m)).collect();
            let nn = !e;
            let nv: Vec<bool> = (0..1usize << n).map(|m| nn.value(m)).collect();
            out.push((cubes, vals, Lut::from(e), e.is_zero(), e.is_one(), e.num_cubes(), e.num_lits(), xv, nv));
        }
        out
    });
    match r {
        Outcome::Returned(out) => {
            let inv = out[3].1.clone();
            for (k, (cubes, vals, l, isz, iso, nc, nl, xv, nv)) in out.iter().enumerate() {
                let key = ["zero", "one", "nth_var", "nth_var_inv"][k];
                let want = xor_sets(n, cubes);
                ctx.check("esop-value-parity", *vals == want && *nc == cubes.len() && *nl == cubes.iter().map(|c| c.lits()).sum::<usize>(), ev, key, || format!("Esop::{} does not evaluate to the parity of its cubes", key));
                ctx.check("esop-to-lut", Model::from_blocks(n, l.blocks()).bits == want, ev, key, || format!("Lut::from(&Esop::{}) is not the tabulated XOR", key));
                ctx.check("esop-is-zero-sound", !*isz || want.iter().all(|b| !*b), ev, key, || "is_zero on a non-zero Esop".into());
                ctx.check("esop-is-one-sound", !*iso || want.iter().all(|b| *b), ev, key, || "is_one on a non-one Esop".into());
                let wx: Vec<bool> = want.iter().zip(inv.iter()).map(|(a, b)| a != b).collect();
                ctx.check("esop-xor-semantic", *xv == wx, ev, key, || format!("Esop::{} ^ nth_var_inv does not denote the XOR", key));
                let wn: Vec<bool> = want.iter().map(|b| !*b).collect();
                ctx.check("esop-not-semantic", *nv == wn, ev, key, || format!("!Esop::{} does not denote the complement", key));
            }
        }
        Outcome::Panicked(msg) => ctx.violate("no-panic", ev, "esop-ctor", format!("Esop constructor panicked: {}", msg)),
    }
}

fn exec(ctx: &mut Ctx, ev: &Ev) {
    match ev.op.as_str() {
        "esop-ctor" => exec_ctor(ctx, ev),
        "pprm" => exec_pprm(ctx, ev),
        "esop-ops" => exec_ops(ctx, ev),
        "esop-chain" => exec_chain(ctx, ev),
        "esop-wide" => exec_wide(ctx, ev),
        other => panic!("harness: unknown op {}", other),
    }
}

fn random_cube(n: usize, rng: &mut Rng) -> CubeM {
    let mut c = CubeM::new(0, 0);
    if n == 0 {
        return c;
    }
    for _ in 0..rng.below(std::cmp::min(n, 5) + 1) {
        let v = rng.below(n);
        if c.support() & (1 << v) == 0 {
            if rng.bool() {
                c.pos |= 1 << v;
            } else {
                c.neg |= 1 << v;
            }
        }
    }
    c
}

fn main() {
    silence_panics();
    let cli = Cli::parse();
    let mut ctx = cli.ctx("C15");
    if let Some(ev) = cli.replay_event() {
        exec(&mut ctx, &ev);
        std::process::exit(vmon::ctx::report_replay(&ctx));
    }
    let thorough = ctx.thorough();
    let seed = cli.seed;
    let mut shards: Vec<(&str, usize, usize, usize)> = Vec::new();
    for n in 0..=4usize {
        let chunks = if n == 4 { 16 } else { 1 };
        for c in 0..chunks {
            shards.push(("all", n, c, chunks));
        }
    }
    for n in 5..=10usize {
        for c in 0..2 {
            shards.push(("sampled", n, c, 2));
        }
    }
    for c in 0..8 {
        shards.push(("ops", 0, c, 8));
    }
    run_sharded(&mut ctx, cli.threads, shards.len(), |ctx, k| {
        let (kind, n, c, chunks) = shards[k];
        let mut rng = Rng::new(seed ^ ((n as u64) << 14) ^ ((c as u64) << 22) ^ ((kind.len() as u64) << 34));
        match kind {
            "all" => {
                let count: u64 = 1u64 << (1u64 << n);
                for x in 0..count {
                    if (x as usize) % chunks == c {
                        exec_pprm(ctx, &Ev::new("pprm", "Esop", n).tab(&[x]));
                    }
                }
                ctx.exhaustive.insert(format!("all functions, n={}", n), true);
            }
            "sampled" => {
                let reps = (if thorough { 600 } else { 6 }) / std::cmp::max(1, n.saturating_sub(6));
                for _ in 0..std::cmp::max(1, reps) {
                    for fam in Fam::ALL {
                        let f = gen::gen(fam, n, &mut rng);
                        exec_pprm(ctx, &Ev::new("pprm", "Esop", n).tab(&f));
                    }
                }
                // tables whose 64-bit blocks are related through the transform itself: a block, its Reed-Muller
                // coefficient table, their complements, zero, all ones (fast paths that compare blocks)
                if n >= 7 {
                    for _ in 0..if thorough { 200 } else { 24 } {
                        let a = Model::from_blocks(6, &[rng.next_u64()]);
                        let rm = {
                            let anf = a.anf();
                            let mut w = 0u64;
                            for (s, b) in anf.iter().enumerate() {
                                if *b {
                                    w |= 1u64 << s;
                                }
                            }
                            w
                        };
                        let a0 = a.to_blocks()[0];
                        let choices = [a0, rm, !a0, !rm, 0u64, !0u64];
                        let uniform = rng.below(3) != 0;
                        let pick_all = *rng.pick(&choices[..4]);
                        let blocks: Vec<u64> = (0..gen::words(n))
                            .map(|k| if k == 0 { a0 } else if uniform { pick_all } else { *rng.pick(&choices) })
                            .collect();
                        exec_pprm(ctx, &Ev::new("pprm", "Esop", n).tab(&blocks));
                    }
                }
                // every symmetric function
                if c == 0 {
                    for blocks in gen::all_symmetric(n) {
                        exec_pprm(ctx, &Ev::new("pprm", "Esop", n).tab(&blocks));
                    }
                    ctx.exhaustive.insert(format!("all symmetric functions, n={}", n), true);
                }
                // single monomials and their sums: the ANF is known by construction
                for _ in 0..if thorough { 40 } else { 6 } {
                    let s = rng.below(1 << n);
                    let mono = Model::from_fn(n, |m| m & s == s);
                    exec_pprm(ctx, &Ev::new("pprm", "Esop", n).tab(&mono.to_blocks()));
                }
            }
            _ => {
                let reps = if thorough { 400000 } else { 3000 };
                for _ in 0..reps {
                    let nn = rng.range(0, 10);
                    let la = rng.range(0, 8);
                    let lb = rng.range(0, 8);
                    let mut a: Vec<CubeM> = (0..la).map(|_| random_cube(nn, &mut rng)).collect();
                    let b: Vec<CubeM> = (0..lb).map(|_| random_cube(nn, &mut rng)).collect();
                    if !a.is_empty() && rng.chance(1, 3) {
                        let d = a[0];
                        a.push(d); // a repeated cube cancels
                    }
                    exec_ops(ctx, &ops_ev(nn, &a, &b));
                }
                // Esops over all 32 variables: short lists of constant cubes (empty cube, cube without literals),
                // full-width cubes, sparse and dense cubes
                for _ in 0..if thorough { 20000 } else { 300 } {
                    let mk = |rng: &mut Rng| -> Vec<CubeM> {
                        (0..rng.below(4))
                            .map(|_| match rng.below(6) {
                                0 => CubeM::new(1 << rng.below(32), 1 << rng.below(32)).and(&CubeM::new(1, 1)), // contradictory
                                1 => CubeM::new(0, 0),
                                2 => {
                                    let x = rng.next_u64() as u32;
                                    CubeM::new(x, !x)
                                }
                                3 => {
                                    let x = rng.next_u64() as u32;
                                    let y = rng.next_u64() as u32;
                                    CubeM::new(x & y, !x & y)
                                }
                                _ => {
                                    let mut c = CubeM::new(0, 0);
                                    for _ in 0..rng.below(4) {
                                        let v = rng.below(32);
                                        if c.support() & (1 << v) == 0 {
                                            if rng.bool() {
                                                c.pos |= 1 << v;
                                            } else {
                                                c.neg |= 1 << v;
                                            }
                                        }
                                    }
                                    c
                                }
                            })
                            .collect()
                    };
                    let a = mk(&mut rng);
                    let b = mk(&mut rng);
                    let mut ev = ops_ev(32, &a, &b);
                    ev.op = "esop-wide".into();
                    exec_wide(ctx, &ev);
                }
                // long lists of dense cubes (most variables present, mostly positive), in the order of `Cube`'s own
                // `Ord` (sorted input is what conversions from other forms produce), reversed, or shuffled
                for r in 0..if thorough { 600 } else { 24 } {
                    let nn = rng.range(6, 10);
                    let len = *rng.pick(&[40usize, 64, 65, 100, 200, 300]);
                    let mut cubes: Vec<CubeM> = (0..len)
                        .map(|_| {
                            let mut cb = CubeM::new(0, 0);
                            for v in 0..nn {
                                match rng.below(6) {
                                    0..=2 => cb.pos |= 1 << v,
                                    3 => cb.neg |= 1 << v,
                                    _ => {}
                                }
                            }
                            cb
                        })
                        .collect();
                    match r % 3 {
                        0 => cubes.sort_by(|x, y| x.real().cmp(&y.real())),
                        1 => {
                            cubes.sort_by(|x, y| x.real().cmp(&y.real()));
                            cubes.reverse();
                        }
                        _ => {}
                    }
                    let b: Vec<CubeM> = (0..rng.range(0, 3)).map(|_| random_cube(nn, &mut rng)).collect();
                    exec_ops(ctx, &ops_ev(nn, &cubes, &b));
                    ctx.cell_only(&format!("esop-ops-long-dense|{}", ["sorted", "reverse-sorted", "unsorted"][r % 3]));
                }
                // long accumulations: 2..9 operands, converted tables and long cube lists drawn from a small pool
                // (so that cubes repeat three times and more), earlier operands coming back
                for _ in 0..if thorough { 1500 } else { 40 } {
                    let nn = rng.range(4, 10);
                    let k = rng.range(2, 9);
                    let pool: Vec<CubeM> = (0..rng.range(3, 40)).map(|_| random_cube(nn, &mut rng)).collect();
                    let mut ops: Vec<Operand> = Vec::new();
                    for j in 0..k {
                        let o = match rng.below(6) {
                            0 | 1 => Operand::Table(gen::random_blocks(nn, &mut rng)),
                            2 => Operand::Table(gen::any_fam(nn, &mut rng).1),
                            3 => {
                                let len = *rng.pick(&[0usize, 1, 3, 20, 130, 260, 300, 520]);
                                Operand::List((0..len).map(|_| if rng.chance(2, 3) { *rng.pick(&pool) } else { random_cube(nn, &mut rng) }).collect())
                            }
                            4 => Operand::List((0..rng.range(0, 6)).map(|_| *rng.pick(&pool)).collect()),
                            _ => {
                                if j > 0 {
                                    match &ops[rng.below(j)] {
                                        Operand::Table(b) => Operand::Table(b.clone()),
                                        Operand::List(l) => Operand::List(l.clone()),
                                    }
                                } else {
                                    Operand::List(vec![])
                                }
                            }
                        };
                        ops.push(o);
                    }
                    exec_chain(ctx, &chain_ev(nn, &ops));
                }
                if c == 0 {
                    for nn in 1..=10usize {
                        for v in 0..nn {
                            exec_ctor(ctx, &Ev::new("esop-ctor", "Esop", nn).int(v));
                        }
                    }
                }
                // all pairs of lists of length <= 2 over n <= 2
                if c == 0 {
                    for nn in 0..=2usize {
                        let cubes = vmon::twolevel::all_cubes(nn);
                        let mut lists: Vec<Vec<CubeM>> = vec![vec![]];
                        for x in &cubes {
                            lists.push(vec![*x]);
                            for y in &cubes {
                                lists.push(vec![*x, *y]);
                            }
                        }
                        for a in &lists {
                            for b in &lists {
                                exec_ops(ctx, &ops_ev(nn, a, b));
                            }
                        }
                        ctx.exhaustive.insert(format!("Esop operators on all pairs of cube lists of length <= 2, n={}", nn), true);
                    }
                }
            }
        }
    });
    // hidden-state monitor: sampled events of all shards again, mixed, on one thread (ctx::run_mix)
    run_mix(&mut ctx, seed, |c, e| exec(c, e));
    // and concurrently: the same sample on several threads at once (shared state inside the library)
    run_mix_concurrent(&mut ctx, seed, cli.threads, |c, e| exec(c, e));
    let mut required: Vec<String> = Vec::new();
    for n in 0..=10 {
        required.push(format!("pprm|n={}", n));
        required.push(format!("esop-ops|n={}", n));
        if n == 0 {
            required.push("esop-wide|n=32".into());
            for k in ["sorted", "reverse-sorted", "unsorted"] {
                required.push(format!("esop-ops-long-dense|{}", k));
            }
        }
        if n >= 6 {
            required.push(format!("esop-chain|n={}|over-256-cubes", n));
        }
    }
    cli.finish(&ctx, &required, RULE);
}
