//! C09 — text forms are exact and fixed-width; parsing accepts exactly well-formed input
//! (DESIGN.md section 3, C09).

use vmon::ctx::hex_of_blocks;
use vmon::gen::{self, Fam};
use vmon::obs::{observe, realize};
use vmon::*;

const RULE: &str = "events: print = to_hex_string/to_bin_string/Display/{:x}/{:b} of one table compared with \
the model's rendering, plus parse(print(f)) == f; parse = from_hex_string(n, s) compared with the \
well-formedness oracle (exactly width hex digits whose value fits in 2^n bits => the denoted function; \
anything else => Err; never a panic). Strings: all strings over a 26-symbol alphabet up to width+2 for \
n<=3, mutations of valid strings above. non-trivial print = function neither constant nor literal; \
non-trivial parse = string differs from every rendering of a constant; distinct = distinct (op, type, n, table or string)";

const ALPHABET: [&str; 26] = [
    "0", "1", "2", "3", "4", "5", "6", "7", "8", "9", "a", "b", "c", "d", "e", "f", "A", "F", "+",
    "-", " ", "g", "x", "é", "а", "１", // the last two: Cyrillic a (U+0430, low byte '0'), fullwidth digit one
];
const HOSTILE: [&str; 14] = ["+", "-", " ", "g", "x", "G", "é", "\u{0}", "_", ".", "٣", "\n", "X", "ß"];

fn cell(op: &str, class: &str, ty: &str, n: usize) -> String {
    format!("{}|{}|{}|n={}", op, class, ty, n)
}

/// Outcome class of a candidate string (for coverage accounting).
fn classify(n: usize, s: &str) -> &'static str {
    let w = Model::hex_width(n);
    if !s.is_ascii() {
        return "non-ascii";
    }
    if s.len() != w {
        return "bad-length";
    }
    if s.contains('+') || s.contains('-') {
        return "sign";
    }
    if !s.chars().all(|c| c.is_ascii_hexdigit()) {
        return "bad-char";
    }
    if Model::parse_hex(n, s).is_none() {
        return "digit-too-large";
    }
    if s.chars().any(|c| c.is_ascii_uppercase()) {
        "valid-upper"
    } else {
        "valid-lower"
    }
}

fn exec<T: Tbl>(ctx: &mut Ctx, ev: &Ev) {
    let n = ev.n;
    match ev.op.as_str() {
        "print" => {
            let mf = Model::from_blocks(n, &ev.tabs[0]);
            let f: T = match realize(ctx, ev, n, &ev.tabs[0]) {
                Some(f) => f,
                None => return,
            };
            ctx.event(&cell("print", if n < 6 { "in-word" } else { "multi-word" }, T::ty(), n), ev, mf.nontrivial());
            let want_hex = mf.to_hex();
            let want_bin = mf.to_bin();
            let got = guard(|| {
                (
                    f.t_to_hex_string(),
                    f.t_to_bin_string(),
                    format!("{}", f),
                    format!("{:x}", f),
                    format!("{:b}", f),
                )
            });
            let (hex, bin, disp, lx, lb) = match got {
                Outcome::Returned(x) => x,
                Outcome::Panicked(m) => {
                    ctx.violate("no-panic", ev, "print", format!("printing panicked: {}", m));
                    return;
                }
            };
            ctx.check("hex-exact", hex == want_hex, ev, "to_hex_string", || {
                format!("to_hex_string gave {:?} expected {:?}", hex, want_hex)
            });
            ctx.check("bin-exact", bin == want_bin, ev, "to_bin_string", || {
                format!("to_bin_string gave {:?} expected {:?}", bin, want_bin)
            });
            let wd = format!("Lut{}({})", n, want_hex);
            let wb = format!("Lut{}({})", n, want_bin);
            ctx.check("display-wrap", disp == wd, ev, "Display", || format!("Display gave {:?} expected {:?}", disp, wd));
            ctx.check("display-wrap", lx == wd, ev, "LowerHex", || format!("{{:x}} gave {:?} expected {:?}", lx, wd));
            ctx.check("display-wrap", lb == wb, ev, "Binary", || format!("{{:b}} gave {:?} expected {:?}", lb, wb));
            // the formatting traits reached with format-spec flags, and through writers that fail (fmtprobe.rs)
            {
                use std::fmt::Write as _;
                use vmon::fmtprobe as fp;
                let salt = ev.digest();
                let r = guard(|| {
                    let mut checks = 0usize;
                    checks += fp::judge_specs(&fp::display_specs(&f), &wd, Some("0x")).map_err(|(s, o)| ("format-flags", format!("{} gives {:?}, which does not carry {:?}", s, o, wd)))?;
                    checks += fp::judge_specs(&fp::hex_specs(&f), &wd, Some("0x")).map_err(|(s, o)| ("format-flags", format!("{} gives {:?}, which does not carry {:?}", s, o, wd)))?;
                    checks += fp::judge_specs(&fp::bin_specs(&f), &wb, Some("0b")).map_err(|(s, o)| ("format-flags", format!("{} gives {:?}, which does not carry {:?}", s, o, wb)))?;
                    if wb.len() <= 600 || salt % 8 == 0 {
                        checks += fp::judge_failing(&wd, &fp::caps_for(wd.len(), salt), &|w| write!(w, "{}", f), &|| format!("{}", f)).map_err(|m| ("failing-writer", format!("Display: {}", m)))?;
                        checks += fp::judge_failing(&wd, &fp::caps_for(wd.len(), salt >> 7), &|w| write!(w, "{:x}", f), &|| format!("{:x}", f)).map_err(|m| ("failing-writer", format!("LowerHex: {}", m)))?;
                        checks += fp::judge_failing(&wb, &fp::caps_for(wb.len(), salt >> 13), &|w| write!(w, "{:b}", f), &|| format!("{:b}", f)).map_err(|m| ("failing-writer", format!("Binary: {}", m)))?;
                    }
                    Ok::<usize, (&'static str, String)>(checks)
                });
                match r {
                    Outcome::Returned(Ok(k)) => ctx.checked("display-wrap-any-route", k as u64),
                    Outcome::Returned(Err((key, msg))) => ctx.violate("display-wrap-any-route", ev, key, msg),
                    Outcome::Panicked(m) => ctx.violate("no-panic", ev, "print-routes", format!("formatting with flags / into a failing writer panicked: {}", m)),
                }
            }
            // round trip on what the library itself printed
            match guard(|| T::t_from_hex_string(n, &hex)) {
                Outcome::Returned(Ok(back)) => {
                    observe(ctx, ev, "parse(print(f))", &back, n);
                    ctx.check("roundtrip", back == f, ev, "roundtrip", || {
                        format!("parse(print(f)) != f: printed {:?}, parsed back {}", hex, hex_of_blocks(back.t_blocks()))
                    });
                }
                Outcome::Returned(Err(())) => ctx.violate("roundtrip", ev, "roundtrip-err", format!("from_hex_string rejected the printed form {:?}", hex)),
                Outcome::Panicked(m) => ctx.violate("no-panic", ev, "roundtrip", format!("from_hex_string panicked on the printed form {:?}: {}", hex, m)),
            }
        }
        "parse" => {
            let s = &ev.strs[0];
            let class = classify(n, s);
            let oracle = Model::parse_hex(n, s);
            let nontrivial = match &oracle {
                Some(m) => m.is_const().is_none(),
                None => true,
            };
            ctx.event(&cell("parse", class, T::ty(), n), ev, nontrivial);
            match guard(|| T::t_from_hex_string(n, s)) {
                Outcome::Panicked(m) => ctx.violate("no-panic", ev, class, format!("from_hex_string({}, {:?}) panicked: {}", n, s, m)),
                Outcome::Returned(Ok(t)) => {
                    let got = observe(ctx, ev, "parsed value", &t, n);
                    match (&oracle, got) {
                        (Some(want), Some(got)) => {
                            ctx.check("parse-value", got == *want, ev, class, || {
                                format!("from_hex_string({}, {:?}) gave {} expected {}", n, s,
                                    hex_of_blocks(t.t_blocks()), hex_of_blocks(&want.to_blocks()))
                            });
                        }
                        (None, _) => {
                            ctx.violate("reject-malformed", ev, class, format!(
                                "from_hex_string({}, {:?}) returned Ok({}) for a string that is not {} hex digits fitting 2^{} bits",
                                n, s, hex_of_blocks(t.t_blocks()), Model::hex_width(n), n));
                        }
                        _ => {}
                    }
                }
                Outcome::Returned(Err(())) => {
                    // lower-case well-formed strings must be accepted; upper-case may be rejected
                    let must_accept = oracle.is_some() && class == "valid-lower";
                    ctx.check("accept-wellformed", !must_accept, ev, class, || {
                        format!("from_hex_string({}, {:?}) returned Err for a well-formed lower-case string", n, s)
                    });
                    ctx.checked("reject-malformed", 1);
                }
            }
        }
        other => panic!("harness: unknown op {}", other),
    }
}

fn exec_dispatch(ctx: &mut Ctx, ev: &Ev) {
    with_ty!(ev.is_static(), ev.n, T => exec::<T>(ctx, ev))
}

fn both(ctx: &mut Ctx, n: usize, mk: impl Fn(&str) -> Ev) {
    exec_dispatch(ctx, &mk("Lut"));
    if n <= tbl::MAX_STATIC {
        exec_dispatch(ctx, &mk("LutN"));
    }
}

/// every string over ALPHABET of exactly `len` symbols, by index
fn nth_string(mut k: u64, len: usize) -> String {
    let mut s = String::new();
    for _ in 0..len {
        s.push_str(ALPHABET[(k % ALPHABET.len() as u64) as usize]);
        k /= ALPHABET.len() as u64;
    }
    s
}

/// A non-ASCII character that a sloppy decoder could take for a hex digit: its code point modulo 256 is an
/// ASCII hex digit (several planes), or it is a Unicode digit / fullwidth letter.
fn lookalike(rng: &mut Rng) -> String {
    let hex = b"0123456789abcdefABCDEF";
    let low = hex[rng.below(hex.len())] as u32;
    let cp = match rng.below(8) {
        0 => 0x0100 + low,
        1 => 0x0400 + low,
        2 => 0x3000 + low,
        3 => 0x2600 + low,
        4 => 0x1f600 + low,
        5 => 0xff10 + rng.below(10) as u32,       // fullwidth digits
        6 => 0x0660 + rng.below(10) as u32,       // Arabic-Indic digits
        _ => 0xff21 + rng.below(6) as u32,        // fullwidth A..F
    };
    char::from_u32(cp).unwrap_or('é').to_string()
}

/// Every non-ASCII scalar whose upper- or lower-case mapping consists of ASCII characters only (for example the
/// ligature U+FB00 "ff" -> "FF", the Kelvin sign -> "k", long s -> "S"), with the number of characters it expands to.
/// A parser that normalises case with the Unicode tables instead of the ASCII ones lets these through.
fn case_lookalikes() -> Vec<(char, usize)> {
    let mut v = Vec::new();
    for cp in 0x80u32..=0x10ffff {
        if let Some(c) = char::from_u32(cp) {
            let up: String = c.to_uppercase().collect();
            let lo: String = c.to_lowercase().collect();
            if up.is_ascii() {
                v.push((c, up.chars().count()));
            }
            if lo.is_ascii() && lo.chars().count() != up.chars().count() || (lo.is_ascii() && !up.is_ascii()) {
                v.push((c, lo.chars().count()));
            }
        }
    }
    v
}

fn replace_char(s: &str, pos: usize, with: &str) -> String {
    let mut out = String::new();
    for (i, c) in s.chars().enumerate() {
        if i == pos {
            out.push_str(with);
        } else {
            out.push(c);
        }
    }
    out
}

fn mutations(ctx: &mut Ctx, n: usize, valid: &str, rng: &mut Rng, heavy: bool, lookalikes: &[(char, usize)]) {
    let w = valid.chars().count();
    let parse = |s: String| move |ty: &str| Ev::new("parse", ty, n).st(&s);
    both(ctx, n, parse(valid.to_string()));
    // upper-cased variants
    both(ctx, n, parse(valid.to_uppercase()));
    let mixed: String = valid.chars().map(|c| if rng.bool() { c.to_ascii_uppercase() } else { c }).collect();
    both(ctx, n, parse(mixed));
    // positions: every position of the first, a middle and the last 16-character chunk (+ random ones)
    let mut positions: Vec<usize> = Vec::new();
    let chunks = std::cmp::max(1, w / 16);
    let picked_chunks = [0usize, chunks / 2, chunks - 1];
    for c in picked_chunks {
        for p in 0..std::cmp::min(16, w) {
            positions.push(std::cmp::min(c * 16 + p, w - 1));
        }
    }
    for _ in 0..8 {
        positions.push(rng.below(w));
    }
    positions.sort();
    positions.dedup();
    for p in &positions {
        let picks: Vec<&str> = if heavy { HOSTILE.to_vec() } else { vec![HOSTILE[rng.below(HOSTILE.len())], "+", "é"] };
        for h in picks {
            both(ctx, n, parse(replace_char(valid, *p, h)));
        }
        let la = lookalike(rng);
        both(ctx, n, parse(replace_char(valid, *p, &la)));
    }
    // '+' and '-' at the start of every chunk (u64::from_str_radix accepts a leading '+')
    for c in 0..chunks {
        both(ctx, n, parse(replace_char(valid, std::cmp::min(c * 16, w - 1), "+")));
        both(ctx, n, parse(replace_char(valid, std::cmp::min(c * 16, w - 1), "-")));
    }
    if chunks > 1 {
        let mut s = valid.to_string();
        for c in 0..chunks {
            s = replace_char(&s, c * 16, "+");
        }
        both(ctx, n, parse(s));
    }
    // length +-1, +-2, empty, doubled
    both(ctx, n, parse(String::new()));
    both(ctx, n, parse(valid[..valid.len() - 1].to_string()));
    if w >= 2 {
        both(ctx, n, parse(valid[..valid.len() - 2].to_string()));
        both(ctx, n, parse(valid[1..].to_string()));
    }
    both(ctx, n, parse(format!("{}0", valid)));
    both(ctx, n, parse(format!("0{}", valid)));
    both(ctx, n, parse(format!("{}00", valid)));
    both(ctx, n, parse(format!(" {}", valid)));
    both(ctx, n, parse(format!("{} ", valid)));
    both(ctx, n, parse(format!("0x{}", valid)));
    both(ctx, n, parse(format!("{}{}", valid, valid)));
    // case-mapping look-alikes: the character stands for `e` ASCII characters after case normalisation, so
    // it is inserted into a valid string shortened by e (character count after expansion = width), and also
    // substituted one-for-one
    for (c, e) in lookalikes {
        if *e >= 1 && w >= *e {
            let keep: String = valid.chars().take(w - *e).collect();
            let pos = rng.below(w - *e + 1);
            let mut s2 = String::new();
            for (i, ch) in keep.chars().enumerate() {
                if i == pos {
                    s2.push(*c);
                }
                s2.push(ch);
            }
            if pos == w - *e {
                s2.push(*c);
            }
            both(ctx, n, parse(s2));
        }
        both(ctx, n, parse(replace_char(valid, rng.below(w), &c.to_string())));
    }
    // a multi-byte character making the *byte* length equal to the expected width
    if w >= 2 {
        let shorter: String = valid.chars().take(w - 2).collect();
        both(ctx, n, parse(format!("{}é", shorter))); // é is 2 bytes
        both(ctx, n, parse(format!("é{}", shorter)));
        let mid = (w - 2) / 2;
        both(ctx, n, parse(format!("{}é{}", &shorter[..mid], &shorter[mid..])));
    }
    if w >= 3 {
        let shorter: String = valid.chars().take(w - 3).collect();
        both(ctx, n, parse(format!("{}€", shorter))); // 3 bytes
    }
    if w >= 4 {
        let shorter: String = valid.chars().take(w - 4).collect();
        both(ctx, n, parse(format!("{}😀", shorter))); // 4 bytes
    }
}

const MAX_N: usize = 12;

fn main() {
    silence_panics();
    let cli = Cli::parse();
    let mut ctx = cli.ctx("C09");
    if let Some(ev) = cli.replay_event() {
        exec_dispatch(&mut ctx, &ev);
        std::process::exit(vmon::ctx::report_replay(&ctx));
    }
    let thorough = ctx.thorough();
    let seed = cli.seed;
    // shards: ("print"| "strings" | "mut", n, chunk, chunks)
    let mut shards: Vec<(&str, usize, usize, usize)> = Vec::new();
    for n in 0..=MAX_N + 2 {
        let chunks = if n == 4 { 8 } else { 1 };
        for c in 0..chunks {
            shards.push(("print", n, c, chunks));
        }
    }
    for n in 0..=3usize {
        let chunks = if n == 3 { 16 } else { 2 };
        for c in 0..chunks {
            shards.push(("strings", n, c, chunks));
        }
    }
    for n in 2..=MAX_N + 2 {
        shards.push(("mut", n, 0, 1));
    }
    let lookalikes = case_lookalikes();
    ctx.bump("case-mapping-lookalike-characters", lookalikes.len() as u64);
    run_sharded(&mut ctx, cli.threads, shards.len(), |ctx, k| {
        let (kind, n, c, chunks) = shards[k];
        let mut rng = Rng::new(seed ^ ((n as u64) << 16) ^ ((c as u64) << 8) ^ kind.len() as u64);
        match kind {
            "print" => {
                if n <= 4 {
                    let count: u64 = 1u64 << (1u64 << n);
                    for x in 0..count {
                        if (x as usize) % chunks == c {
                            both(ctx, n, |ty| Ev::new("print", ty, n).tab(&[x]));
                        }
                    }
                    ctx.exhaustive.insert(format!("printing of all functions, n={}", n), true);
                } else {
                    let reps = if thorough { 400 } else { 4 };
                    for _ in 0..reps {
                        for fam in Fam::ALL {
                            let f = gen::gen(fam, n, &mut rng);
                            both(ctx, n, |ty| Ev::new("print", ty, n).tab(&f));
                        }
                    }
                }
            }
            "strings" => {
                let w = Model::hex_width(n);
                for len in 0..=w + 2 {
                    let total = (ALPHABET.len() as u64).pow(len as u32);
                    for kk in 0..total {
                        if (kk as usize) % chunks != c {
                            continue;
                        }
                        let s = nth_string(kk, len);
                        both(ctx, n, |ty| Ev::new("parse", ty, n).st(&s));
                    }
                }
                ctx.exhaustive.insert(format!("all strings over the 26-symbol alphabet up to length width+2, n={}", n), true);
            }
            _ => {
                let reps = if thorough { 300 } else { 3 };
                for r in 0..reps {
                    let fam = Fam::ALL[r % Fam::ALL.len()];
                    let f = Model::from_blocks(n, &gen::gen(if r == 0 { Fam::Random } else { fam }, n, &mut rng));
                    let valid = f.to_hex();
                    mutations(ctx, n, &valid, &mut rng, thorough || n <= 8, if r == 0 { &lookalikes } else { &[] });
                }
                // digits only / letters only / all f / all 0
                let w = Model::hex_width(n);
                for ch in ["f", "0", "9", "a"] {
                    mutations(ctx, n, &ch.repeat(w), &mut rng, false, &[]);
                }
            }
        }
    });
    // hidden-state monitor: sampled events of all shards again, mixed, on one thread (ctx::run_mix)
    run_mix(&mut ctx, seed, |c, e| exec_dispatch(c, e));
    // and concurrently: the same sample on several threads at once (shared state inside the library)
    run_mix_concurrent(&mut ctx, seed, cli.threads, |c, e| exec_dispatch(c, e));
    let mut required = Vec::new();
    for n in 0..=MAX_N + 2 {
        for ty in ["Lut", "LutN"] {
            if ty == "LutN" && n > tbl::MAX_STATIC {
                continue;
            }
            required.push(cell("print", if n < 6 { "in-word" } else { "multi-word" }, ty, n));
            for class in ["valid-lower", "valid-upper", "bad-length", "bad-char", "sign", "non-ascii"] {
                // for n < 2 the only digits that fit are 0..3: no upper-case well-formed string exists
                if class == "valid-upper" && n < 2 {
                    continue;
                }
                required.push(cell("parse", class, ty, n));
            }
            if n < 2 {
                required.push(cell("parse", "digit-too-large", ty, n));
            }
        }
    }
    cli.finish(&ctx, &required, RULE);
}
