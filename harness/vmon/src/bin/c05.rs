//! C05 — canonization witnesses (permutation, complementation mask) map input to result
//! (DESIGN.md section 3, C05).

use vmon::canon::{apply_certificate, call_canon, certificate_shape};
use vmon::ctx::hex_of_blocks;
use vmon::gen::{self, Fam};
use vmon::model::Group;
use vmon::obs::{observe, realize};
use vmon::*;

const RULE: &str = "event = one p/n/npn_canonization call whose returned (perm, mask) is evaluated by an \
independent evaluator: perm is a permutation of 0..n, mask < 2^(n+1), and g(y) = f(x) ^ mask[n] with \
x[perm[i]] = y[i] ^ mask[i] must equal the returned table on every assignment. Inputs: every function for \
n<=4; for n=5..8 random/structured functions, their representatives fed back in (input already canonical), \
symmetric functions, functions with planted symmetries and vacuous variables. non-trivial = function \
neither constant nor a literal; distinct = distinct (group, type, n, table)";

fn cell(kind: &str, g: Group, ty: &str, n: usize) -> String {
    format!("{}|{}|{}|n={}", kind, g.name(), ty, n)
}

fn group_of(s: &str) -> Group {
    *Group::ALL.iter().find(|g| g.name() == s).expect("harness: group name")
}

/// Returns the representative's blocks so that the workload can feed it back.
fn exec<T: Tbl>(ctx: &mut Ctx, ev: &Ev) -> Option<Vec<u64>> {
    let n = ev.n;
    let g = group_of(&ev.strs[0]);
    let tag = ev.strs.get(1).map(|s| s.as_str()).unwrap_or("replay");
    let mf = Model::from_blocks(n, &ev.tabs[0]);
    let f: T = realize(ctx, ev, n, &ev.tabs[0])?;
    let gname = g.name();
    let out = match call_canon(g, &f) {
        Outcome::Returned(o) => o,
        Outcome::Panicked(m) => {
            ctx.event(&cell("panicked", g, T::ty(), n), ev, mf.nontrivial());
            ctx.violate("terminates-normally", ev, gname, format!("{}_canonization of {} (n={}) panicked: {}", gname, hex_of_blocks(&ev.tabs[0]), n, m));
            return None;
        }
    };
    let canonical_input = out.repr == f;
    let kind = if canonical_input { "canonical-input" } else { "non-canonical-input" };
    ctx.event(&cell(kind, g, T::ty(), n), ev, mf.nontrivial());
    if tag == "symmetric" || tag == "planted-symmetry" || tag == "vacuous" {
        ctx.cell_only(&cell("nontrivial-stabiliser-by-construction", g, T::ty(), n));
    }
    let shape = certificate_shape(n, &out.perm, out.mask);
    let key = format!("{}:{}", gname, kind);
    if !ctx.check("certificate-shape", shape.is_ok(), ev, &key, || {
        format!("{}_canonization of {}: {}", gname, hex_of_blocks(&ev.tabs[0]), shape.clone().unwrap_err())
    }) {
        return Some(out.repr.t_blocks().to_vec());
    }
    match g {
        Group::P => {
            ctx.check("p-no-complement", out.mask == 0, ev, &key, || "P certificate carries a complementation".into());
        }
        Group::N => {}
        Group::Npn => {}
    }
    let image = apply_certificate(&mf, &out.perm, out.mask);
    if let Some(c) = observe(ctx, ev, "representative", &out.repr, n) {
        ctx.check("certificate-maps-input-to-result", image == c, ev, &key, || {
            format!("{}_canonization of {} returned {} with perm {:?} mask {:#x}, but applying the certificate to the input gives {}",
                gname, hex_of_blocks(&ev.tabs[0]), hex_of_blocks(out.repr.t_blocks()), out.perm, out.mask, hex_of_blocks(&image.to_blocks()))
        });
    }
    Some(out.repr.t_blocks().to_vec())
}

fn exec_dispatch(ctx: &mut Ctx, ev: &Ev) -> Option<Vec<u64>> {
    with_ty!(ev.is_static(), ev.n, T => exec::<T>(ctx, ev))
}

/// run on both types; when `feed_back`, canonize the representative again (input already canonical)
fn both(ctx: &mut Ctx, n: usize, g: Group, f: &[u64], tag: &str, feed_back: bool) {
    both_rng(ctx, n, g, f, tag, feed_back, None)
}

/// With a generator, the representative is also fed back after a *single kind* of group action applied
/// by the model: only a permutation, only input complementations, only the output complementation.  The
/// walk then reaches the representative at very particular steps (end of a flip round, first flip round,
/// ...), which random inputs hit with probability 1/2^n or less.
fn both_rng(ctx: &mut Ctx, n: usize, g: Group, f: &[u64], tag: &str, feed_back: bool, rng: Option<&mut Rng>) {
    let mut derived: Vec<(String, Vec<u64>)> = Vec::new();
    for ty in ["Lut", "LutN"] {
        if ty == "LutN" && n > tbl::MAX_STATIC {
            continue;
        }
        let ev = Ev::new("certificate", ty, n).st(g.name()).st(tag).tab(f);
        if let Some(r) = exec_dispatch(ctx, &ev) {
            if feed_back && r[..] != f[..] {
                let ev2 = Ev::new("certificate", ty, n).st(g.name()).st(tag).tab(&r);
                exec_dispatch(ctx, &ev2);
            }
            if ty == "Lut" {
                derived.push(("repr".into(), r));
            }
        }
    }
    if let (Some(rng), Some((_, r))) = (rng, derived.first()) {
        let mr = Model::from_blocks(n, r);
        let id: Vec<usize> = (0..n).collect();
        let mut images: Vec<(&str, Model)> = Vec::new();
        if g != Group::N && n >= 2 {
            let mut p = id.clone();
            rng.shuffle(&mut p);
            images.push(("pure-permutation", mr.apply_npn(&p, 0, false)));
            let (i, j) = (rng.below(n), rng.below(n));
            images.push(("pure-transposition", mr.swap(i, j)));
        }
        if g != Group::P {
            images.push(("pure-output-complement", mr.not()));
            if n >= 1 {
                images.push(("pure-input-flip", mr.flip(rng.below(n))));
                images.push(("pure-input-flips", mr.apply_npn(&id, rng.below(1 << n), false)));
            }
        }
        for (kind, m) in images {
            let b = m.to_blocks();
            for ty in ["Lut", "LutN"] {
                if ty == "LutN" && n > tbl::MAX_STATIC {
                    continue;
                }
                ctx.cell_only(&format!("directed|{}|{}|{}|n={}", kind, g.name(), ty, n));
                exec_dispatch(ctx, &Ev::new("certificate", ty, n).st(g.name()).st(kind).tab(&b));
            }
        }
    }
}

fn budget(g: Group, n: usize, thorough: bool) -> usize {
    let q = match (g, n) {
        (_, 5) => 600,
        (Group::Npn, 6) => 200,
        (Group::Npn, 7) => 64,
        (Group::Npn, 8) => 8,
        (Group::P, 6) => 600,
        (Group::P, 7) => 300,
        (Group::P, 8) => 60,
        (Group::N, 6..=8) => 600,
        _ => 0,
    };
    if thorough {
        q * 60
    } else {
        q
    }
}

fn main() {
    silence_panics();
    let cli = Cli::parse();
    let mut ctx = cli.ctx("C05");
    if let Some(ev) = cli.replay_event() {
        exec_dispatch(&mut ctx, &ev);
        std::process::exit(vmon::ctx::report_replay(&ctx));
    }
    let thorough = ctx.thorough();
    let seed = cli.seed;
    let mut shards: Vec<(Group, usize, usize, usize)> = Vec::new();
    for g in Group::ALL {
        for n in 0..=8usize {
            let chunks = if n == 4 { 16 } else if n <= 3 { 1 } else { 16 };
            for c in 0..chunks {
                shards.push((g, n, c, chunks));
            }
        }
    }
    // pseudo-size 99: cross-size sequences (see below), one shard per group
    for g in Group::ALL {
        shards.push((g, 99, 0, 1));
    }
    shards.sort_by_key(|(g, n, _, _)| std::cmp::Reverse((*g == Group::Npn) as usize * 100 + *n));
    // cold start: the first canonizations of the process at the sizes that use generated (not tabulated) sequences
    // come from 8 threads released together (lazily initialised process-wide state has its race here, once)
    {
        let mut rng = Rng::new(seed ^ 0xc01d);
        let mut total = 0u64;
        for n in [8usize, 7] {
            for g in [Group::P, Group::Npn, Group::N] {
                let f = gen::random_blocks(n, &mut rng);
                let evs: Vec<Ev> = ["Lut", "LutN"].iter().map(|ty| Ev::new("certificate", ty, n).st(g.name()).st("cold-start").tab(&f)).collect();
                total += run_events_concurrently(&mut ctx, seed, cli.threads, &evs, std::time::Duration::from_millis(100), |c, e| {
                    exec_dispatch(c, e);
                });
            }
        }
        ctx.bump("cold-start:first-requests", total);
    }
    run_sharded(&mut ctx, cli.threads, shards.len(), |ctx, k| {
        let (g, n, c, chunks) = shards[k];
        let mut rng = Rng::new(seed ^ ((n as u64) << 48) ^ ((g as u64) << 42) ^ (c as u64).wrapping_mul(0x9e3779b1));
        if n == 99 {
            // The same raw table word canonized at consecutive sizes on one thread (a word with its upper
            // bits clear is a well-formed table of several sizes): results must not depend on what was
            // computed just before (caches, memo tables, thread-local scratch state).
            let reps = if thorough { 3000 } else { 200 };
            for r in 0..reps {
                let top = rng.range(2, 5); // the word is a table of `top` variables ...
                let w = match r % 3 {
                    0 => rng.next_u64(),
                    1 => !(rng.next_u64() & rng.next_u64() & rng.next_u64()),
                    _ => rng.next_u64() & rng.next_u64(),
                } & gen::low_mask(top);
                // ... and of every larger single-word size
                let mut sizes: Vec<usize> = (top..=6).collect();
                sizes.extend((top..=6).rev());
                if rng.bool() {
                    rng.shuffle(&mut sizes);
                }
                for nn in sizes {
                    ctx.cell_only(&format!("cross-size-sequence|{}|n={}", g.name(), nn));
                    both(ctx, nn, g, &[w], "cross-size-sequence", false);
                }
            }
            return;
        }
        if n <= 4 {
            let count: u64 = 1u64 << (1u64 << n);
            for x in 0..count {
                if (x as usize) % chunks != c {
                    continue;
                }
                // every function is an input, so every representative (and every image of it) is also met as an input
                both(ctx, n, g, &[x], "all", false);
            }
            ctx.exhaustive.insert(format!("all functions, group {}, n={}", g.name(), n), true);
        } else {
            let total = budget(g, n, thorough);
            let mine = (total + chunks - 1 - c) / chunks;
            let special = [Fam::GatedPartSym, Fam::Symmetric, Fam::PlantedSym, Fam::FewMinterms, Fam::Vacuous, Fam::Shannon, Fam::NearConst, Fam::Projection, Fam::Const];
            for i in 0..mine {
                let r = c + i * chunks; // global index: the pattern is spread over the chunks
                let (fam, tag) = match r % 2 {
                    0 => (Fam::Random, "random"),
                    _ => {
                        let f = special[(r / 2) % special.len()];
                        (f, f.name())
                    }
                };
                let f = gen::gen(fam, n, &mut rng);
                both_rng(ctx, n, g, &f, tag, true, Some(&mut rng));
            }
            // symmetries that hold in one cofactor only (x_c & g, x_c ? g : h with h symmetric in a pair): extra
            // events for the sizes whose budget is small
            if n >= 7 {
                let extra = match (g, n) {
                    (Group::Npn, 7) => 12,
                    (Group::Npn, _) => 6,
                    _ => 12,
                } * if thorough { 20 } else { 1 };
                for i in 0..extra {
                    if i % chunks != c {
                        continue;
                    }
                    let f = gen::gen(Fam::GatedPartSym, n, &mut rng);
                    both_rng(ctx, n, g, &f, Fam::GatedPartSym.name(), false, None);
                }
            }
            // functions of three variables on triples of variables (sparse regular tables with many ties
            // between orbit members): every function for N and P at n = 7 (8 in thorough), sampled for NPN
            if n >= 7 {
                let sweep = match g {
                    Group::N => n <= if thorough { 8 } else { 7 },
                    Group::P => n <= 7,
                    Group::Npn => false,
                };
                let mut t = 0usize;
                for a in 0..n {
                    for b2 in a + 1..n {
                        for c2 in b2 + 1..n {
                            t += 1;
                            if t % chunks != c {
                                continue;
                            }
                            if sweep {
                                for gg in 0..256u64 {
                                    let blocks = gen::small_support_blocks(n, &[a, b2, c2], gg);
                                    both(ctx, n, g, &blocks, "small-support", false);
                                }
                            } else if g == Group::Npn && n == 7 && (thorough || t % 4 == 0) {
                                let blocks = gen::small_support_blocks(n, &[a, b2, c2], rng.next_u64() & 0xff);
                                both(ctx, n, g, &blocks, "small-support", false);
                            }
                        }
                    }
                }
            }
        }
    });
    // hidden-state monitor: sampled events of all shards again, mixed, on one thread (ctx::run_mix)
    run_mix(&mut ctx, seed, |c, e| {
        exec_dispatch(c, e);
    });
    // and concurrently: the same sample on several threads at once (shared state inside the library)
    run_mix_concurrent(&mut ctx, seed, cli.threads, |c, e| {
        exec_dispatch(c, e);
    });
    let mut required = Vec::new();
    for g in Group::ALL {
        for n in 0..=8usize {
            for ty in ["Lut", "LutN"] {
                required.push(cell("canonical-input", g, ty, n));
                // a non-canonical input needs a non-trivial group action on some function
                let group_acts = match g {
                    Group::P => n >= 2,
                    _ => true,
                };
                if group_acts {
                    required.push(cell("non-canonical-input", g, ty, n));
                }
                if n >= 5 {
                    required.push(cell("nontrivial-stabiliser-by-construction", g, ty, n));
                    for kind in ["pure-permutation", "pure-transposition", "pure-output-complement", "pure-input-flip", "pure-input-flips"] {
                        let applies = if kind.starts_with("pure-perm") || kind.starts_with("pure-trans") { g != Group::N } else { g != Group::P };
                        if applies {
                            required.push(format!("directed|{}|{}|{}|n={}", kind, g.name(), ty, n));
                        }
                    }
                }
            }
        }
    }
    for g in Group::ALL {
        for nn in 3..=6 {
            required.push(format!("cross-size-sequence|{}|n={}", g.name(), nn));
        }
    }
    cli.finish(&ctx, &required, RULE);
}
