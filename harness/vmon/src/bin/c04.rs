//! C04 — P/N/NPN canonization returns the orbit minimum, for every function and size
//! (DESIGN.md section 3, C04).

use vmon::canon::{call_canon, WalkCache};
use vmon::ctx::hex_of_blocks;
use vmon::gen::{self, Fam};
use vmon::model::{orbit_min, Group};
use vmon::obs::{observe, realize};
use vmon::*;

const RULE: &str = "events: canon = one p/n/npn_canonization call whose representative is compared with the \
minimum of an independently enumerated orbit (lexicographic permutations x counted polarities x output), plus \
idempotence and the hook monitor over the swap/flip sequences the walker was actually handed (every group \
element must be visited); meta = canonization of f and of a random group element applied to f by the model \
must give the same representative. All functions for n<=4; sampled/structured functions for n=5..8 (N to 12, \
P to 9). non-trivial = the function is neither constant nor a literal; distinct = distinct (op, group, type, n, table)";

fn cell(op: &str, g: Group, ty: &str, n: usize) -> String {
    format!("{}|{}|{}|n={}", op, g.name(), ty, n)
}

fn group_of(s: &str) -> Group {
    *Group::ALL.iter().find(|g| g.name() == s).expect("harness: group name")
}

struct Local {
    walks: WalkCache,
}

fn exec<T: Tbl>(ctx: &mut Ctx, ev: &Ev, local: &mut Local) {
    let n = ev.n;
    let g = group_of(&ev.strs[0]);
    let mf = Model::from_blocks(n, &ev.tabs[0]);
    let f: T = match realize(ctx, ev, n, &ev.tabs[0]) {
        Some(f) => f,
        None => return,
    };
    let gname = g.name();
    match ev.op.as_str() {
        "canon" => {
            ctx.event(&cell("canon", g, T::ty(), n), ev, mf.nontrivial());
            let out = match call_canon(g, &f) {
                Outcome::Returned(o) => o,
                Outcome::Panicked(m) => {
                    ctx.violate("terminates-normally", ev, gname, format!("{}_canonization of {} (n={}) panicked: {}", gname, hex_of_blocks(&ev.tabs[0]), n, m));
                    return;
                }
            };
            let want = orbit_min(&mf, g);
            ctx.bump(&format!("orbit-elements-enumerated|{}", gname), want.visited);
            if want.attained > 1 {
                ctx.cell_only(&format!("minimum-attained-by-several-elements|{}|{}|n={}", gname, T::ty(), n));
            }
            if want.min == mf {
                ctx.cell_only(&format!("input-already-canonical|{}|{}|n={}", gname, T::ty(), n));
            }
            if let Some(got) = observe(ctx, ev, "representative", &out.repr, n) {
                ctx.check("orbit-minimum", got == want.min, ev, gname, || {
                    format!("{}_canonization of {} gave {} but the orbit minimum is {}", gname, hex_of_blocks(&ev.tabs[0]),
                        hex_of_blocks(out.repr.t_blocks()), hex_of_blocks(&want.min.to_blocks()))
                });
            }
            // idempotence on the real code
            match call_canon(g, &out.repr) {
                Outcome::Returned(again) => {
                    ctx.check("idempotent", again.repr == out.repr, ev, gname, || {
                        format!("canonizing the representative {} gives {}", hex_of_blocks(out.repr.t_blocks()), hex_of_blocks(again.repr.t_blocks()))
                    });
                }
                Outcome::Panicked(m) => ctx.violate("terminates-normally", ev, &format!("{}:idempotence", gname), format!("canonizing the representative panicked: {}", m)),
            }
            // hook monitor: which group elements did the walk visit?
            let group_trivial = match g {
                Group::P => n <= 1,
                Group::N | Group::Npn => false,
            };
            if !(out.swaps.is_empty() && out.flips.is_empty() && (group_trivial || n <= 1)) {
                let (rep, fresh) = local.walks.check(n, g, &out.swaps, &out.flips);
                if fresh {
                    ctx.bump(&format!("walks-validated|{}|n={}", gname, n), 1);
                    ctx.bump("walk-states-simulated", rep.states_visited);
                    if rep.exactly_once && rep.closed {
                        ctx.bump("walks-closed-and-visiting-each-element-once", 1);
                    }
                }
                ctx.cell_only(&format!("hook|{}|n={}", gname, n));
                // verdict-bearing where functions with a trivial stabiliser exist (n >= 5): an element
                // that is never visited then loses the minimum of some function
                if n >= 5 {
                    ctx.check("walk-covers-group", rep.covers, ev, gname, || {
                        format!("the {} walk for n={} does not visit the whole group: {}", gname, n, rep.detail)
                    });
                } else if !rep.covers {
                    ctx.note(format!("walk for {} n={} does not cover the group ({}); functions are checked exhaustively at this size", gname, n, rep.detail));
                }
            } else {
                ctx.cell_only(&format!("hook-not-reached|{}|n={}", gname, n));
            }
        }
        "meta" => {
            // ints: perm (n entries), mask, out
            ctx.event(&cell("meta", g, T::ty(), n), ev, mf.nontrivial());
            let perm: Vec<usize> = (0..n).map(|i| ev.i(i)).collect();
            let mask = ev.i(n);
            let outc = ev.i(n + 1) == 1;
            let mg = mf.apply_npn(&perm, mask, outc);
            let gt: T = match realize(ctx, ev, n, &mg.to_blocks()) {
                Some(x) => x,
                None => return,
            };
            match (call_canon(g, &f), call_canon(g, &gt)) {
                (Outcome::Returned(a), Outcome::Returned(b)) => {
                    ctx.check("class-invariant", a.repr == b.repr, ev, gname, || {
                        format!("{} and its image {} under a group element get different {} representatives {} / {}",
                            hex_of_blocks(&ev.tabs[0]), hex_of_blocks(&mg.to_blocks()), gname,
                            hex_of_blocks(a.repr.t_blocks()), hex_of_blocks(b.repr.t_blocks()))
                    });
                    // the representative is never larger than either input
                    ctx.check("not-larger-than-input", a.repr <= f && b.repr <= gt, ev, gname, || "representative compares greater than the input".into());
                }
                _ => ctx.violate("terminates-normally", ev, gname, format!("{}_canonization panicked (n={})", gname, n)),
            }
        }
        "directed" => {
            // the representative r of f, moved by ONE kind of group action applied by the model, must come
            // back to r: the walk then has to find the minimum at very particular steps (first / last step of
            // a flip round, a pure permutation, only the output complement)
            let kind = ev.i(0);
            let kname = ["pure-permutation", "pure-transposition", "pure-input-flip", "pure-input-flips", "pure-output-complement"][kind];
            ctx.event(&format!("directed|{}|{}|{}|n={}", kname, gname, T::ty(), n), ev, mf.nontrivial());
            let r = match call_canon(g, &f) {
                Outcome::Returned(o) => o.repr,
                Outcome::Panicked(m) => {
                    ctx.violate("terminates-normally", ev, gname, format!("{}_canonization panicked (n={}): {}", gname, n, m));
                    return;
                }
            };
            let mr = Model::from_blocks(n, r.t_blocks());
            let mut rng = Rng::new(ev.ints[1]);
            let id: Vec<usize> = (0..n).collect();
            let image = match kind {
                0 => {
                    let mut p = id.clone();
                    rng.shuffle(&mut p);
                    mr.apply_npn(&p, 0, false)
                }
                1 => mr.swap(rng.below(n), rng.below(n)),
                2 => mr.flip(rng.below(n)),
                3 => mr.apply_npn(&id, rng.below(1 << n), false),
                _ => mr.not(),
            };
            let gi: T = match realize(ctx, ev, n, &image.to_blocks()) {
                Some(x) => x,
                None => return,
            };
            match call_canon(g, &gi) {
                Outcome::Returned(o) => {
                    ctx.check("class-invariant", o.repr == r, ev, &format!("{}:{}", gname, kname), || {
                        format!("the {} representative {} moved by a {} ({}) canonizes to {} instead of back to itself",
                            gname, hex_of_blocks(r.t_blocks()), kname, hex_of_blocks(&image.to_blocks()), hex_of_blocks(o.repr.t_blocks()))
                    });
                }
                Outcome::Panicked(m) => ctx.violate("terminates-normally", ev, gname, format!("{}_canonization panicked (n={}): {}", gname, n, m)),
            }
        }
        other => panic!("harness: unknown op {}", other),
    }
}

fn exec_dispatch(ctx: &mut Ctx, ev: &Ev, local: &mut Local) {
    with_ty!(ev.is_static(), ev.n, T => exec::<T>(ctx, ev, local))
}

fn both(ctx: &mut Ctx, local: &mut Local, n: usize, mk: impl Fn(&str) -> Ev) {
    exec_dispatch(ctx, &mk("Lut"), local);
    if n <= tbl::MAX_STATIC {
        exec_dispatch(ctx, &mk("LutN"), local);
    }
}

fn meta_event(ty: &str, n: usize, g: Group, f: &[u64], rng: &mut Rng) -> Ev {
    let mut perm: Vec<usize> = (0..n).collect();
    let mut mask = 0usize;
    let mut out = 0usize;
    if g != Group::N {
        rng.shuffle(&mut perm);
    }
    if g != Group::P {
        mask = rng.below(1 << n);
        out = rng.below(2);
    }
    let mut ev = Ev::new("meta", ty, n).st(g.name()).tab(f);
    for p in perm {
        ev = ev.int(p);
    }
    ev.int(mask).int(out)
}

/// number of oracle-checked functions per (group, n) and tier
fn budget(g: Group, n: usize, thorough: bool) -> usize {
    let q = match (g, n) {
        (_, 5) => 400,
        (Group::Npn, 6) => 120,
        (Group::Npn, 7) => 16,
        (Group::Npn, 8) => 2,
        (Group::P, 6) => 200,
        (Group::P, 7) => 60,
        (Group::P, 8) => 12,
        (Group::P, 9) => 2,
        (Group::N, 6..=8) => 300,
        (Group::N, 9..=10) => 60,
        (Group::N, 11..=12) => 16,
        _ => 0,
    };
    if thorough {
        q * 48
    } else {
        q
    }
}

fn main() {
    silence_panics();
    let cli = Cli::parse();
    let mut ctx = cli.ctx("C04");
    if let Some(ev) = cli.replay_event() {
        let mut local = Local { walks: WalkCache::default() };
        exec_dispatch(&mut ctx, &ev, &mut local);
        std::process::exit(vmon::ctx::report_replay(&ctx));
    }
    let thorough = ctx.thorough();
    let seed = cli.seed;
    // shards: (group, n, chunk, chunks)
    let mut shards: Vec<(Group, usize, usize, usize)> = Vec::new();
    for g in Group::ALL {
        for n in 0..=12usize {
            let max_n = match g {
                Group::Npn => 8,
                Group::P => 9,
                Group::N => 12,
            };
            if n > max_n {
                continue;
            }
            let chunks = if n == 4 { 16 } else if n <= 3 { 1 } else { 16 };
            for c in 0..chunks {
                shards.push((g, n, c, chunks));
            }
        }
    }
    // heavy shards first
    shards.sort_by_key(|(g, n, _, _)| std::cmp::Reverse((*g == Group::Npn) as usize * 100 + *n));
    run_sharded(&mut ctx, cli.threads, shards.len(), |ctx, k| {
        let (g, n, c, chunks) = shards[k];
        let mut local = Local { walks: WalkCache::default() };
        let mut rng = Rng::new(seed ^ ((n as u64) << 44) ^ ((g as u64) << 40) ^ (c as u64).wrapping_mul(0x2545f491));
        if n <= 4 {
            let count: u64 = 1u64 << (1u64 << n);
            for x in 0..count {
                if (x as usize) % chunks != c {
                    continue;
                }
                both(ctx, &mut local, n, |ty| Ev::new("canon", ty, n).st(g.name()).tab(&[x]));
                if x % 64 == 0 {
                    both(ctx, &mut local, n, |ty| meta_event(ty, n, g, &[x], &mut rng.clone()));
                    rng.next_u64();
                }
            }
            ctx.exhaustive.insert(format!("all functions, group {}, n={}", g.name(), n), true);
        } else {
            let total = budget(g, n, thorough);
            let mine = (total + chunks - 1 - c) / chunks; // split the budget over the chunks
            for r in 0..mine {
                let fam = if r % 2 == 0 { Fam::Random } else { Fam::ALL[(r / 2 + c) % Fam::ALL.len()] };
                let f = gen::gen(fam, n, &mut rng);
                both(ctx, &mut local, n, |ty| Ev::new("canon", ty, n).st(g.name()).tab(&f));
            }
            // near misses of a symmetry (symmetric in a pair except on a cube of the other variables): class
            // invariance under random group elements needs no oracle, so these are cheap at the expensive sizes
            if n >= 6 && n <= 8 {
                let extra = match (g, n) {
                    (Group::Npn, 8) => 12,
                    (Group::Npn, _) => 24,
                    _ => 12,
                } * if thorough { 16 } else { 1 };
                for i in 0..extra {
                    if i % chunks != c {
                        continue;
                    }
                    let f = gen::gen(Fam::NearPairSym, n, &mut rng);
                    both(ctx, &mut local, n, |ty| meta_event(ty, n, g, &f, &mut rng.clone()));
                    rng.next_u64();
                }
            }
            // functions of three variables placed on triples of variables (the others vacuous): their tables
            // are full of equal and constant words, where early exits and word-wise shortcuts go wrong.
            // N and P: every function on every triple for n = 7, 8 (thorough: also 9 for P, to 10 for N);
            // NPN: sampled (each call walks the whole group).
            if n >= 7 {
                let sweep = match g {
                    Group::N => n <= if thorough { 10 } else { 8 },
                    Group::P => n <= if thorough { 8 } else { 7 },
                    Group::Npn => false,
                };
                let mut t = 0usize;
                for a in 0..n {
                    for b2 in a + 1..n {
                        for c2 in b2 + 1..n {
                            t += 1;
                            if t % chunks != c {
                                continue;
                            }
                            if sweep {
                                for gg in 0..256u64 {
                                    let blocks = gen::small_support_blocks(n, &[a, b2, c2], gg);
                                    both(ctx, &mut local, n, |ty| Ev::new("canon", ty, n).st(g.name()).tab(&blocks));
                                }
                            } else if g == Group::Npn && n == 7 {
                                for _ in 0..if thorough { 16 } else { 1 } {
                                    let blocks = gen::small_support_blocks(n, &[a, b2, c2], rng.next_u64() & 0xff);
                                    both(ctx, &mut local, n, |ty| Ev::new("canon", ty, n).st(g.name()).tab(&blocks));
                                }
                            }
                        }
                    }
                }
            }
            // metamorphic volume (cheap: two library calls, no oracle orbit)
            let metas = match (g, n) {
                (Group::Npn, 8) => 1,
                (Group::Npn, 7) => 4,
                (Group::P, 9) => 2,
                _ => 40,
            } * if thorough { 40 } else { 1 };
            let mine = (metas + chunks - 1 - c) / chunks;
            for _ in 0..mine {
                let (_, f) = gen::any_fam(n, &mut rng);
                both(ctx, &mut local, n, |ty| meta_event(ty, n, g, &f, &mut rng.clone()));
                rng.next_u64();
                // directed images of the representative (kinds that make sense for the group)
                let f2 = gen::random_blocks(n, &mut rng);
                for kind in 0..5usize {
                    let applies = match kind {
                        0 | 1 => g != Group::N && n >= 2,
                        _ => g != Group::P && n >= 1,
                    };
                    if applies {
                        let s2 = rng.next_u64();
                        both(ctx, &mut local, n, |ty| Ev::new("directed", ty, n).st(g.name()).tab(&f2).int(kind).int64(s2));
                    }
                }
            }
        }
    });
    // hidden-state monitor: sampled events of all shards again, mixed, on one thread (ctx::run_mix)
    {
        let mut local = Local { walks: WalkCache::default() };
        run_mix(&mut ctx, seed, |c, e| exec_dispatch(c, e, &mut local));
    }
    // and concurrently: the same sample on several threads at once (shared state inside the library)
    run_mix_concurrent(&mut ctx, seed, cli.threads, |c, e| {
        let mut local = Local { walks: WalkCache::default() };
        exec_dispatch(c, e, &mut local)
    });
    let mut required = Vec::new();
    for g in Group::ALL {
        for n in 0..=8usize {
            for ty in ["Lut", "LutN"] {
                required.push(cell("canon", g, ty, n));
            }
            // the walker must have been observed through the hook wherever the group is not trivial
            let trivial = n == 0 || (g == Group::P && n <= 1) || (n <= 1);
            if !trivial {
                required.push(format!("hook|{}|n={}", g.name(), n));
            }
        }
    }
    cli.finish(&ctx, &required, RULE);
}
