//! C06 — top-decomposition and unateness classification is sound and complete
//! (DESIGN.md section 3, C06).

use vmon::ctx::hex_of_blocks;
use vmon::gen::{self, regime1, Fam};
use vmon::model::Class;
use vmon::obs::realize;
use vmon::*;

const RULE: &str = "event = top_decomposition(v) + is_pos_unate(v) + is_neg_unate(v) of one table for one variable, \
compared with the priority list of the statement evaluated on the model's cofactors and with pointwise \
unateness; all functions and all v for n<=4; for n up to 14 constructed members of every class with random \
cofactors and near misses with one bit flipped in the first / a middle / the last word. non-trivial = the \
function is neither constant nor a literal; distinct = distinct (type, n, table, v)";

fn cell(class: &str, regime: &str, ty: &str, n: usize) -> String {
    format!("{}|{}|{}|n={}", class, regime, ty, n)
}

fn exec<T: Tbl>(ctx: &mut Ctx, ev: &Ev) {
    let n = ev.n;
    // a caller error right before the event, every 16th time (obs::poison): the event is judged as usual
    {
        let salt = (ev.tabs.first().and_then(|t| t.first()).copied().unwrap_or(7) ^ ((ev.op.len() as u64) << 17)).wrapping_mul(0x9e37_79b9_7f4a_7c15) >> 7;
        if salt % 16 == 0 && !ev.tabs.is_empty() {
            vmon::obs::poison::<T>(ev.n, &ev.tabs[0], salt >> 4);
        }
    }
    let v = ev.i(0);
    let mf = Model::from_blocks(n, &ev.tabs[0]);
    let f: T = match realize(ctx, ev, n, &ev.tabs[0]) {
        Some(f) => f,
        None => return,
    };
    let want = mf.decomposition(v);
    let wp = mf.pos_unate(v);
    let wn = mf.neg_unate(v);
    ctx.event(&cell(want.name(), regime1(v), T::ty(), n), ev, mf.nontrivial());
    ctx.cell_only(&format!("unate-pos={}-neg={}|{}|{}", wp, wn, regime1(v), T::ty()));
    if let Some(tag) = ev.strs.first() {
        ctx.cell_only(&format!("{}|{}|{}", tag, regime1(v), T::ty()));
    }
    match guard(|| (f.t_top_decomposition(v), f.t_is_pos_unate(v), f.t_is_neg_unate(v))) {
        Outcome::Returned((got, gp, gn)) => {
            ctx.check("class-exact", got == want, ev, &format!("{}->{}", want.name(), got.name()), || {
                format!("top_decomposition({}) of {} gave {} expected {}", v, hex_of_blocks(&ev.tabs[0]), got.name(), want.name())
            });
            ctx.check("pos-unate", gp == wp, ev, "pos", || {
                format!("is_pos_unate({}) of {} gave {} expected {}", v, hex_of_blocks(&ev.tabs[0]), gp, wp)
            });
            ctx.check("neg-unate", gn == wn, ev, "neg", || {
                format!("is_neg_unate({}) of {} gave {} expected {}", v, hex_of_blocks(&ev.tabs[0]), gn, wn)
            });
        }
        Outcome::Panicked(m) => ctx.violate("no-panic", ev, "panic", format!("classification panicked on a valid index: {}", m)),
    }
}

fn exec_dispatch(ctx: &mut Ctx, ev: &Ev) {
    with_ty!(ev.is_static(), ev.n, T => exec::<T>(ctx, ev))
}

fn both(ctx: &mut Ctx, n: usize, mk: impl Fn(&str) -> Ev) {
    exec_dispatch(ctx, &mk("Lut"));
    if n <= tbl::MAX_STATIC {
        exec_dispatch(ctx, &mk("LutN"));
    }
}

/// A member of the class for variable v, built from a random non-trivial h (model-level construction).
fn member(class: Class, n: usize, v: usize, rng: &mut Rng) -> Model {
    let h = loop {
        let (_, b) = gen::any_fam(n, rng);
        let m = Model::from_blocks(n, &b);
        // h restricted to be independent of v, and (for most classes) not constant
        let h = m.cofactor(v, rng.bool());
        if h.is_const().is_none() || n == 1 {
            break h;
        }
    };
    let zero = Model::constant(n, false);
    let one = Model::constant(n, true);
    let (c0, c1) = match class {
        Class::Independent => (h.clone(), h.clone()),
        Class::Identity => (zero, one),
        Class::Negation => (one, zero),
        Class::And => (zero, h.clone()),
        Class::Or => (h.clone(), one),
        Class::Le => (one, h.clone()),
        Class::Lt => (h.clone(), zero),
        Class::Xor => (h.clone(), h.not()),
        Class::None => {
            let g = loop {
                let m = Model::from_blocks(n, &gen::random_blocks(n, rng)).cofactor(v, false);
                if m != h && m != h.not() && m.is_const().is_none() {
                    break m;
                }
                if n <= 2 {
                    break m;
                }
            };
            (h.clone(), g)
        }
    };
    Model::from_cofactors(&c0, &c1, v)
}

const MAX_N: usize = 14;

fn main() {
    silence_panics();
    let cli = Cli::parse();
    let mut ctx = cli.ctx("C06");
    if let Some(ev) = cli.replay_event() {
        exec_dispatch(&mut ctx, &ev);
        std::process::exit(vmon::ctx::report_replay(&ctx));
    }
    let thorough = ctx.thorough();
    let seed = cli.seed;
    let mut shards: Vec<(usize, usize, usize)> = Vec::new();
    for n in 1..=MAX_N {
        let chunks = if n == 4 { 16 } else if n <= 3 { 1 } else { 4 };
        for c in 0..chunks {
            shards.push((n, c, chunks));
        }
    }
    // cold start: the first classification requests of the process, for every size and both types, come from 8
    // threads released together (lazily initialised process-wide tables have their race here, once)
    {
        let mut rng = Rng::new(seed ^ 0xc01d);
        let mut total = 0u64;
        for n in 1..=MAX_N {
            let mut evs: Vec<Ev> = Vec::new();
            for ty in ["LutN", "Lut"] {
                if ty == "LutN" && n > tbl::MAX_STATIC {
                    continue;
                }
                for _ in 0..3 {
                    let v = rng.below(n);
                    // members of a class (not None): a literal, a gate with another function
                    let g = gen::random_blocks(n, &mut rng);
                    let lit = Model::var(n, v);
                    let f = match rng.below(3) {
                        0 => lit.to_blocks(),
                        1 => Model::from_blocks(n, &g).and(&lit).to_blocks(),
                        _ => Model::from_blocks(n, &g).or(&lit).to_blocks(),
                    };
                    evs.push(Ev::new("classify", ty, n).tab(&f).int(v).st("cold-start"));
                }
            }
            total += run_events_concurrently(&mut ctx, seed, cli.threads, &evs, std::time::Duration::from_millis(100), |c, e| exec_dispatch(c, e));
        }
        ctx.bump("cold-start:first-requests", total);
    }
    run_sharded(&mut ctx, cli.threads, shards.len(), |ctx, k| {
        let (n, c, chunks) = shards[k];
        let mut rng = Rng::new(seed ^ ((n as u64) << 28) ^ (c as u64).wrapping_mul(77));
        let size = 1usize << n;
        if n <= 4 {
            let count: u64 = 1u64 << (1u64 << n);
            for x in 0..count {
                if (x as usize) % chunks != c {
                    continue;
                }
                for v in 0..n {
                    both(ctx, n, |ty| Ev::new("classify", ty, n).tab(&[x]).int(v));
                }
            }
            ctx.exhaustive.insert(format!("all functions x all variables, n={}", n), true);
        } else {
            let reps = if thorough { 150 } else { 2 };
            let mut idx = 0usize;
            for _ in 0..reps {
                for v in 0..n {
                    for class in Class::ALL {
                        idx += 1;
                        if idx % chunks != c {
                            continue;
                        }
                        let m = member(class, n, v, &mut rng);
                        let b = m.to_blocks();
                        both(ctx, n, |ty| Ev::new("classify", ty, n).tab(&b).int(v).st("member"));
                        // near misses: one bit flipped in the first, a middle, the last word
                        let w = gen::words(n);
                        let spots: Vec<(usize, &str)> = if w == 1 {
                            vec![(rng.below(size), "near-miss-first"), (0, "near-miss-first"), (size - 1, "near-miss-first")]
                        } else {
                            vec![
                                (rng.below(64), "near-miss-first"),
                                (64 * rng.range(1, std::cmp::max(1, w - 2)).min(w - 1) + rng.below(64), "near-miss-middle"),
                                (size - 64 + rng.below(64), "near-miss-last"),
                            ]
                        };
                        for (pos, tag) in spots {
                            let mut b2 = b.clone();
                            b2[pos / 64] ^= 1u64 << (pos % 64);
                            both(ctx, n, |ty| Ev::new("classify", ty, n).tab(&b2).int(v).st(tag));
                        }
                        // also every other variable on the same function (cheap)
                        let v2 = rng.below(n);
                        both(ctx, n, |ty| Ev::new("classify", ty, n).tab(&b).int(v2));
                    }
                }
                for fam in Fam::ALL {
                    idx += 1;
                    if idx % chunks != c {
                        continue;
                    }
                    let b = gen::gen(fam, n, &mut rng);
                    for v in 0..n {
                        both(ctx, n, |ty| Ev::new("classify", ty, n).tab(&b).int(v));
                    }
                }
            }
            // every function of three variables placed on every triple of variables >= 4 (the word-selecting
            // ones and their in-word neighbours), classified for each variable of the triple: coupled
            // structures such as x8 & (x6 ^ x7) that no random table contains
            if n >= 7 {
                let mut t = 0usize;
                for a in 4..n {
                    for b2 in a + 1..n {
                        for c2 in b2 + 1..n {
                            t += 1;
                            if t % chunks != c {
                                continue;
                            }
                            for g in 0..256u64 {
                                let blocks = gen::small_support_blocks(n, &[a, b2, c2], g);
                                for v in [a, b2, c2] {
                                    both(ctx, n, |ty| Ev::new("classify", ty, n).tab(&blocks).int(v).st("small-support-sweep"));
                                }
                            }
                        }
                    }
                }
                ctx.exhaustive.insert(format!("all 3-variable functions on all triples of variables >= 4, n={}", n), true);
            }
            // all symmetric functions (n <= 10), every variable
            if n <= 10 && c == 0 {
                for blocks in gen::all_symmetric(n) {
                    let v = rng.below(n);
                    both(ctx, n, |ty| Ev::new("classify", ty, n).tab(&blocks).int(v));
                }
            }
        }
    });
    // hidden-state monitor: sampled events of all shards again, mixed, on one thread (ctx::run_mix)
    run_mix(&mut ctx, seed, |c, e| exec_dispatch(c, e));
    // and concurrently: the same sample on several threads at once (shared state inside the library)
    run_mix_concurrent(&mut ctx, seed, cli.threads, |c, e| exec_dispatch(c, e));
    let mut required = Vec::new();
    for n in 1..=MAX_N {
        for ty in ["Lut", "LutN"] {
            if ty == "LutN" && n > tbl::MAX_STATIC {
                continue;
            }
            for class in Class::ALL {
                if n == 1 && !matches!(class, Class::Independent | Class::Identity | Class::Negation) {
                    continue; // a 1-variable function has constant cofactors
                }
                if n == 2 && class == Class::None {
                    continue; // cofactors of one variable: all pairs fall in some class
                }
                required.push(cell(class.name(), "lo", ty, n));
                if n > 6 {
                    required.push(cell(class.name(), "hi", ty, n));
                }
            }
        }
    }
    for ty in ["Lut", "LutN"] {
        for regime in ["lo", "hi"] {
            for tag in ["member", "near-miss-first", "near-miss-middle", "near-miss-last"] {
                required.push(format!("{}|{}|{}", tag, regime, ty));
            }
            for (p, q) in [(true, false), (false, true), (false, false), (true, true)] {
                required.push(format!("unate-pos={}-neg={}|{}|{}", p, q, regime, ty));
            }
        }
    }
    cli.finish(&ctx, &required, RULE);
}
