//! C01 — logical operators are exact pointwise Boolean operations (DESIGN.md section 3, C01).

use vmon::ctx::hex_of_blocks;
use vmon::gen::{self, Fam};
use vmon::obs::{observe, realize};
use vmon::tbl::{BinOp, ALIAS_FORMS, BIN_FORMS, NOT_FORMS};
use vmon::*;

const RULE: &str = "event = one call of one syntactic form of NOT/AND/OR/XOR on a pair of tables; \
pairs: all pairs for n<=3, family x family and random pairs above; non-trivial = both operands are \
non-constant; distinct = distinct (operator, form, type, n, operand tables)";

fn cell(op: &str, form: &str, ty: &str, n: usize) -> String {
    format!("{}:{}|{}|n={}", op, form, ty, n)
}

/// Run every syntactic form of `ev.op` on the operands of the event and monitor each call.
fn exec<T: Tbl>(ctx: &mut Ctx, ev: &Ev) {
    let n = ev.n;
    // a caller error right before the event, every 16th time (obs::poison): the event is judged as usual
    {
        let salt = (ev.tabs.first().and_then(|t| t.first()).copied().unwrap_or(7) ^ ((ev.op.len() as u64) << 17)).wrapping_mul(0x9e37_79b9_7f4a_7c15) >> 7;
        if salt % 16 == 0 && !ev.tabs.is_empty() {
            vmon::obs::poison::<T>(ev.n, &ev.tabs[0], salt >> 4);
        }
    }
    let ma = Model::from_blocks(n, &ev.tabs[0]);
    let a: T = match realize(ctx, ev, n, &ev.tabs[0]) {
        Some(a) => a,
        None => return,
    };
    let base_digest = ev.digest();
    if ev.op == "not" {
        let want = ma.not();
        let nontrivial = ma.is_const().is_none();
        let mut first: Option<T> = None;
        for (k, form) in NOT_FORMS.iter().enumerate() {
            ctx.event_digest(
                &cell("not", form, T::ty(), n),
                Digest(base_digest).usize(k).get(),
                nontrivial,
                || ev.clone().int(k),
            );
            match guard(|| T::t_not_form(k, &a)) {
                Outcome::Panicked(msg) => ctx.violate("no-panic", ev, form, format!("{} panicked: {}", form, msg)),
                Outcome::Returned((r, a_after)) => {
                    if let Some(got) = observe(ctx, ev, &format!("result of {}", form), &r, n) {
                        ctx.check("pointwise", got == want, ev, form, || {
                            format!("{} on {} gave {} expected {}", form, hex_of_blocks(&ev.tabs[0]),
                                hex_of_blocks(r.t_blocks()), hex_of_blocks(&want.to_blocks()))
                        });
                    }
                    ctx.check("operand-unchanged", a_after.t_blocks() == &ev.tabs[0][..] && a_after == a, ev, form, || {
                        format!("{} modified its borrowed operand", form)
                    });
                    match &first {
                        None => first = Some(r),
                        Some(f) => {
                            ctx.check("forms-agree", *f == r && f.t_blocks() == r.t_blocks(), ev, form, || {
                                format!("{} disagrees with {}", form, NOT_FORMS[0])
                            });
                        }
                    }
                }
            }
        }
        return;
    }
    let op = BinOp::from_name(&ev.op).expect("harness: unknown op");
    let mb = Model::from_blocks(n, &ev.tabs[1]);
    let b: T = match realize(ctx, ev, n, &ev.tabs[1]) {
        Some(b) => b,
        None => return,
    };
    let want = Model::from_fn(n, |m| op.apply(ma.bits[m], mb.bits[m]));
    let nontrivial = ma.is_const().is_none() && mb.is_const().is_none();
    // the same object on both sides (possible for the forms that only borrow): a op a
    if ev.tabs[0] == ev.tabs[1] {
        for (k, form) in ALIAS_FORMS.iter().enumerate() {
            ctx.cell_only(&cell(op.name(), &format!("aliased {}", form), T::ty(), n));
            match guard(|| T::t_bin_alias(op, k, &a)) {
                Outcome::Panicked(msg) => ctx.violate("no-panic", ev, form, format!("{} on the same object panicked: {}", form, msg)),
                Outcome::Returned(r) => {
                    if let Some(got) = observe(ctx, ev, &format!("result of aliased {}", form), &r, n) {
                        ctx.check("pointwise", got == want, ev, &format!("aliased {}", form), || {
                            format!("{} {} with the same object on both sides ({}) gave {} expected {}", op.name(), form,
                                hex_of_blocks(&ev.tabs[0]), hex_of_blocks(r.t_blocks()), hex_of_blocks(&want.to_blocks()))
                        });
                    }
                    ctx.check("operand-unchanged", a.t_blocks() == &ev.tabs[0][..], ev, &format!("aliased {}", form), || "aliased form modified its operand".into());
                }
            }
        }
    }
    let mut first: Option<T> = None;
    for (k, form) in BIN_FORMS.iter().enumerate() {
        ctx.event_digest(
            &cell(op.name(), form, T::ty(), n),
            Digest(base_digest).usize(k).get(),
            nontrivial,
            || ev.clone().int(k),
        );
        match guard(|| T::t_bin_form(op, k, &a, &b)) {
            Outcome::Panicked(msg) => ctx.violate("no-panic", ev, form, format!("{} panicked: {}", form, msg)),
            Outcome::Returned((r, a_after, b_after)) => {
                if let Some(got) = observe(ctx, ev, &format!("result of {}", form), &r, n) {
                    ctx.check("pointwise", got == want, ev, form, || {
                        format!("{} {} on a={} b={} gave {} expected {}", op.name(), form,
                            hex_of_blocks(&ev.tabs[0]), hex_of_blocks(&ev.tabs[1]),
                            hex_of_blocks(r.t_blocks()), hex_of_blocks(&want.to_blocks()))
                    });
                }
                let unchanged = a_after.t_blocks() == &ev.tabs[0][..]
                    && b_after.t_blocks() == &ev.tabs[1][..]
                    && a_after == a
                    && b_after == b;
                ctx.check("operand-unchanged", unchanged, ev, form, || {
                    format!("{} {} modified a borrowed operand", op.name(), form)
                });
                match &first {
                    None => first = Some(r),
                    Some(f) => {
                        ctx.check("forms-agree", *f == r && f.t_blocks() == r.t_blocks(), ev, form, || {
                            format!("{} {} disagrees with {}", op.name(), form, BIN_FORMS[0])
                        });
                    }
                }
            }
        }
    }
}

fn exec_dispatch(ctx: &mut Ctx, ev: &Ev) {
    with_ty!(ev.is_static(), ev.n, T => exec::<T>(ctx, ev))
}

fn run_pair(ctx: &mut Ctx, n: usize, a: &[u64], b: &[u64]) {
    for ty in ["Lut", "LutN"] {
        if ty == "LutN" && n > tbl::MAX_STATIC {
            continue;
        }
        let ev = Ev::new("not", ty, n).tab(a);
        exec_dispatch(ctx, &ev);
        for op in BinOp::ALL {
            let ev = Ev::new(op.name(), ty, n).tab(a).tab(b);
            exec_dispatch(ctx, &ev);
            if n >= 4 {
                // the diagonal pair (a, a): also exercises the forms with one object on both sides
                let ev = Ev::new(op.name(), ty, n).tab(a).tab(a);
                exec_dispatch(ctx, &ev);
            }
        }
    }
}

fn max_n() -> usize {
    14
}

fn main() {
    silence_panics();
    let cli = Cli::parse();
    let mut ctx = cli.ctx("C01");
    if let Some(ev) = cli.replay_event() {
        exec_dispatch(&mut ctx, &ev);
        std::process::exit(report_replay(&ctx));
    }
    let thorough = ctx.thorough();
    // shards: (n, chunk index, chunk count)
    let mut shards: Vec<(usize, usize, usize)> = Vec::new();
    for n in 0..=max_n() {
        let chunks = if n == 3 { 32 } else if n <= 2 { 1 } else if thorough { 16 } else { 2 };
        for c in 0..chunks {
            shards.push((n, c, chunks));
        }
    }
    let seed = cli.seed;
    run_sharded(&mut ctx, cli.threads, shards.len(), |ctx, k| {
        let (n, c, chunks) = shards[k];
        let mut rng = Rng::new(seed ^ ((n as u64) << 32) ^ (c as u64).wrapping_mul(0x9e37));
        if n <= 3 {
            // all pairs
            let count: u64 = 1u64 << (1u64 << n);
            for x in 0..count {
                if (x as usize) % chunks != c {
                    continue;
                }
                for y in 0..count {
                    run_pair(ctx, n, &[x], &[y]);
                }
            }
            ctx.exhaustive.insert(format!("all pairs of functions, n={}", n), true);
        } else {
            // family x family, then random pairs
            let mut pairs: Vec<(Fam, Fam)> = Vec::new();
            for fa in Fam::ALL {
                for fb in Fam::ALL {
                    pairs.push((fa, fb));
                }
            }
            for (i, (fa, fb)) in pairs.iter().enumerate() {
                if i % chunks != c {
                    continue;
                }
                let a = gen::gen(*fa, n, &mut rng);
                let b = gen::gen(*fb, n, &mut rng);
                run_pair(ctx, n, &a, &b);
            }
            let extra = if thorough { 24000 } else { 120 } / std::cmp::max(1, n / 4);
            for _ in 0..extra {
                let a = gen::random_blocks(n, &mut rng);
                let b = gen::random_blocks(n, &mut rng);
                run_pair(ctx, n, &a, &b);
            }
            if n == 4 && thorough {
                // a slice of the 2^32 pairs: every x against a random set of y
                for x in 0..65536u64 {
                    if (x as usize) % chunks != c {
                        continue;
                    }
                    for _ in 0..24 {
                        let y = rng.next_u64() & 0xffff;
                        run_pair(ctx, n, &[x], &[y]);
                    }
                }
            }
        }
    });
    // required cells: every (form, type, n)
    // hidden-state monitor: sampled events of all shards again, mixed, on one thread (ctx::run_mix)
    run_mix(&mut ctx, seed, |c, e| exec_dispatch(c, e));
    // and concurrently: the same sample on several threads at once (shared state inside the library)
    run_mix_concurrent(&mut ctx, seed, cli.threads, |c, e| exec_dispatch(c, e));
    let mut required = Vec::new();
    for n in 0..=max_n() {
        for ty in ["Lut", "LutN"] {
            if ty == "LutN" && n > tbl::MAX_STATIC {
                continue;
            }
            for f in NOT_FORMS {
                required.push(cell("not", f, ty, n));
            }
            for op in BinOp::ALL {
                for f in BIN_FORMS {
                    required.push(cell(op.name(), f, ty, n));
                }
                for f in ALIAS_FORMS {
                    required.push(cell(op.name(), &format!("aliased {}", f), ty, n));
                }
            }
        }
    }
    cli.finish(&ctx, &required, RULE);
}

fn report_replay(ctx: &Ctx) -> i32 {
    vmon::ctx::report_replay(ctx)
}
