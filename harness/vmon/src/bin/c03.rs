//! C03 — flip, swap, cofactors and Shannon recomposition are exact (DESIGN.md section 3, C03).

use vmon::ctx::hex_of_blocks;
use vmon::gen::{self, regime1, regime2, Fam};
use vmon::obs::{observe, realize};
use vmon::*;

const RULE: &str = "event = one transform call (flip / swap / swap_adjacent / cofactors / from_cofactors, \
copying and in-place) with its indices on one table; all functions for n<=4 with all indices, engineered \
families and random tables for n up to 14 with all index pairs; non-trivial = the function is neither \
constant nor a literal; distinct = distinct (operation, type, n, table(s), indices)";

fn cell(op: &str, regime: &str, ty: &str, n: usize) -> String {
    format!("{}|{}|{}|n={}", op, regime, ty, n)
}

fn show(m: &Model) -> String {
    hex_of_blocks(&m.to_blocks())
}

fn exec<T: Tbl>(ctx: &mut Ctx, ev: &Ev) {
    let n = ev.n;
    // a caller error right before the event, every 16th time (obs::poison): the event is judged as usual
    {
        let salt = (ev.tabs.first().and_then(|t| t.first()).copied().unwrap_or(7) ^ ((ev.op.len() as u64) << 17)).wrapping_mul(0x9e37_79b9_7f4a_7c15) >> 7;
        if salt % 16 == 0 && !ev.tabs.is_empty() {
            vmon::obs::poison::<T>(ev.n, &ev.tabs[0], salt >> 4);
        }
    }
    let mf = Model::from_blocks(n, &ev.tabs[0]);
    let f: T = match realize(ctx, ev, n, &ev.tabs[0]) {
        Some(f) => f,
        None => return,
    };
    let nontrivial = mf.nontrivial();
    match ev.op.as_str() {
        "flip" => {
            let i = ev.i(0);
            ctx.event(&cell("flip", regime1(i), T::ty(), n), ev, nontrivial);
            let want = mf.flip(i);
            let copy = guard(|| f.t_flip(i));
            let inpl = guard(|| {
                let mut g = f.clone();
                g.t_flip_inplace(i);
                g
            });
            match (copy, inpl) {
                (Outcome::Returned(c), Outcome::Returned(p)) => {
                    if let Some(got) = observe(ctx, ev, "flip result", &c, n) {
                        ctx.check("flip-exact", got == want, ev, "copy", || {
                            format!("flip({}) of {} gave {} expected {}", i, show(&mf), show(&got), show(&want))
                        });
                    }
                    if let Some(got) = observe(ctx, ev, "flip_inplace result", &p, n) {
                        ctx.check("flip-exact", got == want, ev, "inplace", || {
                            format!("flip_inplace({}) of {} gave {} expected {}", i, show(&mf), show(&got), show(&want))
                        });
                    }
                    ctx.check("inplace-eq-copy", c == p, ev, "flip", || "flip and flip_inplace differ".into());
                }
                (a, b) => {
                    let msg = |o: &Outcome<T>| match o {
                        Outcome::Panicked(m) => m.clone(),
                        _ => "returned".into(),
                    };
                    ctx.violate("no-panic", ev, "flip", format!("flip({}) panicked on a valid index: copy={} inplace={}", i, msg(&a), msg(&b)));
                }
            }
        }
        "swap" => {
            let (i, j) = (ev.i(0), ev.i(1));
            ctx.event(&cell("swap", regime2(i, j), T::ty(), n), ev, nontrivial);
            let want = mf.swap(i, j);
            let copy = guard(|| f.t_swap(i, j));
            let inpl = guard(|| {
                let mut g = f.clone();
                g.t_swap_inplace(i, j);
                g
            });
            let rev = guard(|| f.t_swap(j, i));
            match (copy, inpl, rev) {
                (Outcome::Returned(c), Outcome::Returned(p), Outcome::Returned(r)) => {
                    if let Some(got) = observe(ctx, ev, "swap result", &c, n) {
                        ctx.check("swap-exact", got == want, ev, "copy", || {
                            format!("swap({},{}) of {} gave {} expected {}", i, j, show(&mf), show(&got), show(&want))
                        });
                    }
                    if let Some(got) = observe(ctx, ev, "swap_inplace result", &p, n) {
                        ctx.check("swap-exact", got == want, ev, "inplace", || {
                            format!("swap_inplace({},{}) of {} gave {} expected {}", i, j, show(&mf), show(&got), show(&want))
                        });
                    }
                    ctx.check("inplace-eq-copy", c == p, ev, "swap", || "swap and swap_inplace differ".into());
                    ctx.check("swap-symmetric", c == r, ev, "swap", || format!("swap({},{}) != swap({},{})", i, j, j, i));
                }
                _ => ctx.violate("no-panic", ev, "swap", format!("swap({},{}) panicked on valid indices", i, j)),
            }
            // swap_adjacent(k) = swap(k, k+1)
            if j == i + 1 || i == j + 1 {
                let k = std::cmp::min(i, j);
                ctx.cell_only(&cell("swap_adjacent", regime2(k, k + 1), T::ty(), n));
                // swap_adjacent takes `&mut self` but is the copying form: the receiver must be left as it was
                let adj = guard(|| {
                    let mut g = f.clone();
                    let r = g.t_swap_adjacent(k);
                    (r, g)
                });
                let adj = match adj {
                    Outcome::Returned((r, g)) => {
                        ctx.check("receiver-unchanged", g == f && g.t_blocks() == f.t_blocks(), ev, "swap_adjacent", || {
                            format!("swap_adjacent({}) changed its receiver {} into {}", k, show(&mf), vmon::ctx::hex_of_blocks(g.t_blocks()))
                        });
                        Outcome::Returned(r)
                    }
                    Outcome::Panicked(m) => Outcome::Panicked(m),
                };
                let adj_in = guard(|| {
                    let mut g = f.clone();
                    g.t_swap_adjacent_inplace(k);
                    g
                });
                match (adj, adj_in) {
                    (Outcome::Returned(a), Outcome::Returned(b)) => {
                        if let Some(got) = observe(ctx, ev, "swap_adjacent result", &a, n) {
                            ctx.check("swap-adjacent-exact", got == want, ev, "copy", || {
                                format!("swap_adjacent({}) of {} gave {} expected {}", k, show(&mf), show(&got), show(&want))
                            });
                        }
                        if let Some(got) = observe(ctx, ev, "swap_adjacent_inplace result", &b, n) {
                            ctx.check("swap-adjacent-exact", got == want, ev, "inplace", || {
                                format!("swap_adjacent_inplace({}) of {} gave {} expected {}", k, show(&mf), show(&got), show(&want))
                            });
                        }
                    }
                    _ => ctx.violate("no-panic", ev, "swap_adjacent", format!("swap_adjacent({}) panicked on a valid index", k)),
                }
            }
        }
        "cofactors" => {
            let i = ev.i(0);
            ctx.event(&cell("cofactors", regime1(i), T::ty(), n), ev, nontrivial);
            let w0 = mf.cofactor(i, false);
            let w1 = mf.cofactor(i, true);
            match guard(|| f.t_cofactors(i)) {
                Outcome::Returned((c0, c1)) => {
                    let g0 = observe(ctx, ev, "cofactor 0", &c0, n);
                    let g1 = observe(ctx, ev, "cofactor 1", &c1, n);
                    if let (Some(g0), Some(g1)) = (g0, g1) {
                        ctx.check("cofactor-exact", g0 == w0, ev, "c0", || {
                            format!("cofactors({}).0 of {} gave {} expected {}", i, show(&mf), show(&g0), show(&w0))
                        });
                        ctx.check("cofactor-exact", g1 == w1, ev, "c1", || {
                            format!("cofactors({}).1 of {} gave {} expected {}", i, show(&mf), show(&g1), show(&w1))
                        });
                        ctx.check("cofactor-independent", !g0.depends_on(i) && !g1.depends_on(i), ev, "dep", || {
                            format!("a cofactor for variable {} depends on it", i)
                        });
                    }
                    match guard(|| T::t_from_cofactors(&c0, &c1, i)) {
                        Outcome::Returned(back) => {
                            observe(ctx, ev, "from_cofactors(cofactors)", &back, n);
                            ctx.check("shannon-roundtrip", back == f, ev, "roundtrip", || {
                                format!("from_cofactors(cofactors(f,{0}),{0}) != f for f={1}: got {2}", i, show(&mf), hex_of_blocks(back.t_blocks()))
                            });
                        }
                        Outcome::Panicked(m) => ctx.violate("no-panic", ev, "from_cofactors", format!("from_cofactors panicked on a valid index: {}", m)),
                    }
                }
                Outcome::Panicked(m) => ctx.violate("no-panic", ev, "cofactors", format!("cofactors({}) panicked on a valid index: {}", i, m)),
            }
        }
        "from_cofactors" => {
            let i = ev.i(0);
            ctx.event(&cell("from_cofactors", regime1(i), T::ty(), n), ev, nontrivial);
            let m1 = Model::from_blocks(n, &ev.tabs[1]);
            let c1: T = match realize(ctx, ev, n, &ev.tabs[1]) {
                Some(x) => x,
                None => return,
            };
            if ev.tabs[0] == ev.tabs[1] {
                // the same object passed as both cofactors: the result is that function
                ctx.cell_only(&cell("from_cofactors-aliased", regime1(i), T::ty(), n));
                match guard(|| T::t_from_cofactors(&f, &f, i)) {
                    Outcome::Returned(h) => {
                        ctx.check("from-cofactors-exact", h == f && h.t_blocks() == f.t_blocks(), ev, "aliased", || {
                            format!("from_cofactors(&c, &c, {}) with one object for both cofactors gave {} for c={}", i, hex_of_blocks(h.t_blocks()), show(&mf))
                        });
                    }
                    Outcome::Panicked(m) => ctx.violate("no-panic", ev, "from_cofactors-aliased", format!("from_cofactors(&c, &c, {}) panicked: {}", i, m)),
                }
            }
            let want = Model::from_cofactors(&mf, &m1, i);
            match guard(|| T::t_from_cofactors(&f, &c1, i)) {
                Outcome::Returned(h) => {
                    if let Some(got) = observe(ctx, ev, "from_cofactors result", &h, n) {
                        ctx.check("from-cofactors-exact", got == want, ev, "value", || {
                            format!("from_cofactors(c0={}, c1={}, {}) gave {} expected {}", show(&mf), show(&m1), i, show(&got), show(&want))
                        });
                    }
                }
                Outcome::Panicked(m) => ctx.violate("no-panic", ev, "from_cofactors", format!("from_cofactors panicked on a valid index: {}", m)),
            }
        }
        other => panic!("harness: unknown op {}", other),
    }
    // every call above took `f` by shared reference (or worked on a clone): it must still be the table it was
    ctx.check("receiver-unchanged", f.t_blocks() == &ev.tabs[0][..] && f.nv() == n, ev, "after-event", || {
        format!("the operand {} reads {} after the calls of this event", show(&mf), vmon::ctx::hex_of_blocks(f.t_blocks()))
    });
}

fn exec_dispatch(ctx: &mut Ctx, ev: &Ev) {
    with_ty!(ev.is_static(), ev.n, T => exec::<T>(ctx, ev))
}

fn run_function(ctx: &mut Ctx, n: usize, f: &[u64], rng: &mut Rng, all_pairs: bool) {
    for ty in ["Lut", "LutN"] {
        if ty == "LutN" && n > tbl::MAX_STATIC {
            continue;
        }
        for i in 0..n {
            exec_dispatch(ctx, &Ev::new("flip", ty, n).tab(f).int(i));
            exec_dispatch(ctx, &Ev::new("cofactors", ty, n).tab(f).int(i));
            for j in 0..n {
                if all_pairs || j == i || j + 1 == i || i + 1 == j || rng.chance(1, 3) {
                    exec_dispatch(ctx, &Ev::new("swap", ty, n).tab(f).int(i).int(j));
                }
            }
        }
    }
}

fn run_fc(ctx: &mut Ctx, n: usize, c0: &[u64], c1: &[u64]) {
    for ty in ["Lut", "LutN"] {
        if ty == "LutN" && n > tbl::MAX_STATIC {
            continue;
        }
        for i in 0..n {
            exec_dispatch(ctx, &Ev::new("from_cofactors", ty, n).tab(c0).tab(c1).int(i));
        }
        // one function as both cofactors (also through one shared reference)
        let i = n / 2;
        exec_dispatch(ctx, &Ev::new("from_cofactors", ty, n).tab(c0).tab(c0).int(i));
    }
}

const MAX_N: usize = 14;

fn main() {
    silence_panics();
    let cli = Cli::parse();
    let mut ctx = cli.ctx("C03");
    if let Some(ev) = cli.replay_event() {
        exec_dispatch(&mut ctx, &ev);
        std::process::exit(vmon::ctx::report_replay(&ctx));
    }
    let thorough = ctx.thorough();
    let mut shards: Vec<(usize, usize, usize)> = Vec::new();
    for n in 1..=MAX_N {
        let chunks = if n == 4 { 32 } else if n <= 3 { 1 } else if thorough { 16 } else { 4 };
        for c in 0..chunks {
            shards.push((n, c, chunks));
        }
    }
    let seed = cli.seed;
    run_sharded(&mut ctx, cli.threads, shards.len(), |ctx, k| {
        let (n, c, chunks) = shards[k];
        let mut rng = Rng::new(seed ^ ((n as u64) << 40) ^ (c as u64).wrapping_mul(0x51ed));
        if n <= 4 {
            let count: u64 = 1u64 << (1u64 << n);
            for x in 0..count {
                if (x as usize) % chunks != c {
                    continue;
                }
                run_function(ctx, n, &[x], &mut rng, true);
                // arbitrary cofactor pairs: all pairs for n<=2, sampled partners above
                if n <= 2 {
                    for y in 0..count {
                        run_fc(ctx, n, &[x], &[y]);
                    }
                } else {
                    let y = rng.next_u64() & gen::low_mask(n);
                    run_fc(ctx, n, &[x], &[y]);
                }
            }
            ctx.exhaustive.insert(format!("all functions x all indices, n={}", n), true);
        } else {
            let reps = if thorough { 160 } else { 3 };
            let mut k2 = 0usize;
            for rep in 0..reps {
                for fam in Fam::ALL {
                    k2 += 1;
                    if k2 % chunks != c {
                        continue;
                    }
                    let f = gen::gen(fam, n, &mut rng);
                    run_function(ctx, n, &f, &mut rng, rep == 0 || n <= 8);
                    let g = gen::gen(*rng.pick(&Fam::ALL), n, &mut rng);
                    run_fc(ctx, n, &f, &g);
                }
            }
            // every function of three variables on every triple of variables >= 4 (sparse, highly regular
            // tables: equal, zero and complementary words everywhere), transformed on the variables of the
            // triple and on one outside it
            if (7..=if thorough { 12 } else { 10 }).contains(&n) {
                let mut t = 0usize;
                for a in 4..n {
                    for b2 in a + 1..n {
                        for c2 in b2 + 1..n {
                            t += 1;
                            if t % chunks != c {
                                continue;
                            }
                            let outside = (0..n).find(|v| *v != a && *v != b2 && *v != c2).unwrap();
                            for gg in (0..256u64).step_by(if thorough { 1 } else { 3 }) {
                                let blocks = gen::small_support_blocks(n, &[a, b2, c2], gg);
                                for ty in ["Lut", "LutN"] {
                                    if ty == "LutN" && n > tbl::MAX_STATIC {
                                        continue;
                                    }
                                    for v in [a, b2, c2] {
                                        exec_dispatch(ctx, &Ev::new("flip", ty, n).tab(&blocks).int(v));
                                        exec_dispatch(ctx, &Ev::new("cofactors", ty, n).tab(&blocks).int(v));
                                        exec_dispatch(ctx, &Ev::new("swap", ty, n).tab(&blocks).int(v).int(outside));
                                    }
                                    exec_dispatch(ctx, &Ev::new("swap", ty, n).tab(&blocks).int(a).int(b2));
                                    exec_dispatch(ctx, &Ev::new("swap", ty, n).tab(&blocks).int(b2).int(c2));
                                    exec_dispatch(ctx, &Ev::new("swap", ty, n).tab(&blocks).int(c2).int(a));
                                }
                            }
                        }
                    }
                }
            }
        }
    });
    // hidden-state monitor: sampled events of all shards again, mixed, on one thread (ctx::run_mix)
    run_mix(&mut ctx, seed, |c, e| exec_dispatch(c, e));
    // and concurrently: the same sample on several threads at once (shared state inside the library)
    run_mix_concurrent(&mut ctx, seed, cli.threads, |c, e| exec_dispatch(c, e));
    let mut required = Vec::new();
    for n in 1..=MAX_N {
        for ty in ["Lut", "LutN"] {
            if ty == "LutN" && n > tbl::MAX_STATIC {
                continue;
            }
            for op in ["flip", "cofactors", "from_cofactors"] {
                required.push(cell(op, "lo", ty, n));
                if n > 6 {
                    required.push(cell(op, "hi", ty, n));
                }
            }
            required.push(cell("swap", "same", ty, n));
            if n >= 2 {
                required.push(cell("swap", "lo-lo", ty, n));
                required.push(cell("swap_adjacent", "lo-lo", ty, n));
            }
            if n >= 7 {
                required.push(cell("swap", "lo-hi", ty, n));
                required.push(cell("swap_adjacent", "lo-hi", ty, n));
            }
            if n >= 8 {
                required.push(cell("swap", "hi-hi", ty, n));
                required.push(cell("swap_adjacent", "hi-hi", ty, n));
            }
        }
    }
    cli.finish(&ctx, &required, RULE);
}
