//! C19 — random() yields well-formed, non-degenerate, call-independent functions
//! (DESIGN.md section 3, C19).

use std::collections::HashMap;
use std::sync::{Arc, Barrier};

use vmon::obs::well_formed;
use vmon::*;

const RULE: &str = "event = one draw log: 256 calls of random() for one size and one type on one thread (1 thread alone, then \
16 threads released together by a barrier). Checkers over the logs after join: every draw well formed; every \
assignment position takes both values within a log; draws pairwise distinct across all threads (n>=8; at most 5 \
coinciding pairs for n=6,7); at most 4 draws per log with two equal words (multi-word tables); no two threads \
with the same first four draws (n>=6). Thresholds are one-sided with a false-alarm probability below 2^-200 \
for a fair generator. non-trivial = log of a size with more than 1 assignment; distinct = distinct draw logs \
(digest of the drawn tables)";

const DRAWS: usize = 256;
const THREADS: usize = 16;

fn draw_log<T: Tbl>(n: usize) -> Outcome<Vec<Vec<u64>>> {
    guard(|| (0..DRAWS).map(|_| T::t_random(n).t_blocks().to_vec()).collect())
}

fn draw_log_dispatch(is_static: bool, n: usize) -> Outcome<Vec<Vec<u64>>> {
    with_ty!(is_static, n, T => draw_log::<T>(n))
}

/// Checkers over one log.
fn check_log(ctx: &mut Ctx, ev: &Ev, n: usize, log: &[Vec<u64>]) {
    let size = 1usize << n;
    // (1) well-formedness
    let bad = log.iter().find(|d| well_formed(n, d).is_err());
    ctx.checked("well-formed", log.len() as u64);
    ctx.check("well-formed", bad.is_none(), ev, "draw", || format!("random() returned a malformed table: {} ({:?})", vmon::ctx::hex_of_blocks(bad.unwrap()), well_formed(n, bad.unwrap())));
    if bad.is_some() {
        return;
    }
    // (2) every assignment takes both values over the log
    let mut ones = vec![0usize; size];
    for d in log {
        for (m, o) in ones.iter_mut().enumerate() {
            if (d[m / 64] >> (m % 64)) & 1 == 1 {
                *o += 1;
            }
        }
    }
    let stuck = ones.iter().position(|c| *c == 0 || *c == log.len());
    ctx.checked("both-values-everywhere", size as u64);
    ctx.check("both-values-everywhere", stuck.is_none(), ev, "stuck", || {
        let m = stuck.unwrap();
        format!("assignment {} has the value {} in all {} draws of n={}", m, ones[m] != 0, log.len(), n)
    });
    // (4) multi-word tables: draws whose words repeat
    if n >= 7 {
        let rep = log
            .iter()
            .filter(|d| {
                let mut w = (*d).clone();
                w.sort();
                w.windows(2).any(|p| p[0] == p[1])
            })
            .count();
        ctx.check("words-independent", rep <= 4, ev, "repeated-words", || format!("{} of {} draws of n={} contain two equal 64-bit words", rep, log.len(), n));
    }
}

/// Checkers across the logs of several threads for one (type, n).
fn check_across(ctx: &mut Ctx, ev: &Ev, n: usize, logs: &[Vec<Vec<u64>>]) {
    if n < 6 {
        return;
    }
    // (3) pairwise distinct draws over all threads
    let mut seen: HashMap<&Vec<u64>, usize> = HashMap::new();
    let mut coinciding = 0usize;
    for l in logs {
        for d in l {
            let c = seen.entry(d).or_insert(0);
            coinciding += *c;
            *c += 1;
        }
    }
    let allowed = if n >= 8 { 0 } else { 5 };
    ctx.check("draws-distinct", coinciding <= allowed, ev, "coincide", || format!("{} coinciding pairs among {} draws of n={} ({} allowed)", coinciding, logs.len() * DRAWS, n, allowed));
    ctx.bump("distinct-draws-observed", seen.len() as u64);
    // (5) no two threads with the same sequence prefix
    let mut same_prefix = 0;
    for i in 0..logs.len() {
        for j in (i + 1)..logs.len() {
            if logs[i][..4] == logs[j][..4] {
                same_prefix += 1;
            }
        }
    }
    ctx.check("threads-independent", same_prefix == 0, ev, "same-prefix", || format!("{} pairs of threads drew the same first four tables of n={}", same_prefix, n));
}

fn log_digest(log: &[Vec<u64>]) -> u64 {
    let mut d = Digest::new();
    for x in log {
        d = d.words(x);
    }
    d.get()
}

fn run(ctx: &mut Ctx, ty: &str, n: usize, threads: usize) {
    let is_static = ty == "LutN";
    let ev = Ev::new("draw-logs", ty, n).int(threads);
    let logs: Vec<Outcome<Vec<Vec<u64>>>> = if threads == 1 {
        vec![draw_log_dispatch(is_static, n)]
    } else {
        let barrier = Arc::new(Barrier::new(threads));
        let handles: Vec<_> = (0..threads)
            .map(|_| {
                let b = barrier.clone();
                std::thread::spawn(move || {
                    b.wait();
                    draw_log_dispatch(is_static, n)
                })
            })
            .collect();
        handles.into_iter().map(|h| h.join().expect("harness: drawing thread")).collect()
    };
    let mut ok_logs: Vec<Vec<Vec<u64>>> = Vec::new();
    for l in logs {
        match l {
            Outcome::Returned(l) => {
                let d = log_digest(&l);
                ctx.event_digest(&format!("log|{}|n={}|threads={}", ty, n, threads), d, n >= 1, || ev.clone().int64(d));
                ctx.bump("draws", l.len() as u64);
                check_log(ctx, &ev, n, &l);
                ok_logs.push(l);
            }
            Outcome::Panicked(m) => ctx.violate("no-panic", &ev, "panic", format!("random() panicked for n={}: {}", n, m)),
        }
    }
    check_across(ctx, &ev, n, &ok_logs);
}

const MAX_N: usize = 12;

fn main() {
    silence_panics();
    let cli = Cli::parse();
    let mut ctx = cli.ctx("C19");
    if let Some(ev) = cli.replay_event() {
        // statistical property: a replay draws again for the same (type, n, threads)
        run(&mut ctx, &ev.ty, ev.n, ev.i(0));
        std::process::exit(vmon::ctx::report_replay(&ctx));
    }
    let rounds = if ctx.thorough() { 60 } else { 1 };
    for _ in 0..rounds {
        for n in 0..=MAX_N + 2 {
            for ty in ["Lut", "LutN"] {
                if ty == "LutN" && n > tbl::MAX_STATIC {
                    continue;
                }
                run(&mut ctx, ty, n, 1);
                run(&mut ctx, ty, n, THREADS);
            }
        }
    }
    let mut required: Vec<String> = Vec::new();
    for n in 0..=MAX_N {
        for ty in ["Lut", "LutN"] {
            required.push(format!("log|{}|n={}|threads=1", ty, n));
            required.push(format!("log|{}|n={}|threads={}", ty, n, THREADS));
        }
    }
    cli.finish(&ctx, &required, RULE);
}
