//! C19 — random() yields well-formed, non-degenerate, call-independent functions
//! (DESIGN.md section 3, C19).

use std::collections::HashMap;
use std::sync::{Arc, Barrier};

use vmon::obs::well_formed;
use vmon::*;

const RULE: &str = "event = one draw log: 256 calls of random() for one size and one type on one thread (1 thread alone, then \
16 threads released together by a barrier). Checkers over the logs after join: every draw well formed; every \
assignment position takes both values within a log; draws pairwise distinct across all threads (n>=8; at most 5 \
coinciding pairs for n=6,7); at most 4 draws per log with two equal words (multi-word tables); no two threads \
with the same first four draws (n>=6). Thresholds are one-sided with a false-alarm probability below 2^-200 \
for a fair generator. The same monitors plus 'no table value over-represented' and 'consecutive draws differ' run on \
logs drawn with sizes and types interleaved in one thread (all sizes in turn, every ordered pair of small sizes \
alternating, one small draw then a run, random orders). non-trivial = log of a size with more than 1 assignment; \
distinct = distinct draw logs (digest of the drawn tables)";

const DRAWS: usize = 256;
const THREADS: usize = 16;

fn draw_log<T: Tbl>(n: usize) -> Outcome<Vec<Vec<u64>>> {
    guard(|| (0..DRAWS).map(|_| T::t_random(n).t_blocks().to_vec()).collect())
}

fn draw_log_dispatch(is_static: bool, n: usize) -> Outcome<Vec<Vec<u64>>> {
    with_ty!(is_static, n, T => draw_log::<T>(n))
}

/// Smallest k such that  2^log2_values * C(trials, k) * 2^(k * log2_p)  <  2^-200 : a fair generator shows a
/// given one of 2^log2_values outcomes of probability 2^log2_p at least k times with probability below 2^-200
/// (union bound).  Returns trials + 1 when no k qualifies (then the monitor can never fire).
fn tail_threshold(trials: usize, log2_p: f64, log2_values: f64) -> usize {
    let mut log2_binom = 0.0f64; // log2 C(trials, 0)
    for k in 1..=trials {
        log2_binom += ((trials - k + 1) as f64).log2() - (k as f64).log2();
        if log2_values + log2_binom + (k as f64) * log2_p < -200.0 {
            return k;
        }
    }
    trials + 1
}

/// Checkers over one log.
fn check_log(ctx: &mut Ctx, ev: &Ev, n: usize, log: &[Vec<u64>]) {
    let size = 1usize << n;
    // (1) well-formedness
    let bad = log.iter().find(|d| well_formed(n, d).is_err());
    ctx.checked("well-formed", log.len() as u64);
    ctx.check("well-formed", bad.is_none(), ev, "draw", || format!("random() returned a malformed table: {} ({:?})", vmon::ctx::hex_of_blocks(bad.unwrap()), well_formed(n, bad.unwrap())));
    if bad.is_some() {
        return;
    }
    // (2) every assignment takes both values over the log
    let mut ones = vec![0usize; size];
    for d in log {
        for (m, o) in ones.iter_mut().enumerate() {
            if (d[m / 64] >> (m % 64)) & 1 == 1 {
                *o += 1;
            }
        }
    }
    let stuck = ones.iter().position(|c| *c == 0 || *c == log.len());
    ctx.checked("both-values-everywhere", size as u64);
    ctx.check("both-values-everywhere", stuck.is_none(), ev, "stuck", || {
        let m = stuck.unwrap();
        format!("assignment {} has the value {} in all {} draws of n={}", m, ones[m] != 0, log.len(), n)
    });
    // (2b) no table value is over-represented in the log, and consecutive draws are not equal more often
    // than chance allows (a generator that hands out the previous draw, or a constant, for part of the calls)
    let bits = size as f64;
    // P(some k draws all equal) <= C(N, k) * 2^(-bits * (k - 1)) = 2^bits * C(N, k) * 2^(-bits * k)
    let k_mult = tail_threshold(log.len(), -bits, bits);
    let mut counts: HashMap<&Vec<u64>, usize> = HashMap::new();
    for d in log {
        *counts.entry(d).or_insert(0) += 1;
    }
    let (top_val, top) = counts.iter().max_by_key(|(_, c)| **c).map(|(v, c)| ((*v).clone(), *c)).unwrap();
    ctx.check("no-value-over-represented", top < k_mult, ev, "multiplicity", || {
        format!("the table {} occurs {} times among {} draws of n={} (a fair generator stays below {} with probability 1 - 2^-200)",
            vmon::ctx::hex_of_blocks(&top_val), top, log.len(), n, k_mult)
    });
    let adjacent = log.windows(2).filter(|w| w[0] == w[1]).count();
    let k_adj = tail_threshold(log.len() - 1, -bits, 0.0);
    ctx.check("consecutive-draws-differ", adjacent < k_adj, ev, "adjacent", || {
        format!("{} of {} consecutive pairs of draws of n={} are equal (a fair generator stays below {} with probability 1 - 2^-200)", adjacent, log.len() - 1, n, k_adj)
    });
    // (4) multi-word tables: draws whose words repeat
    if n >= 7 {
        let rep = log
            .iter()
            .filter(|d| {
                let mut w = (*d).clone();
                w.sort();
                w.windows(2).any(|p| p[0] == p[1])
            })
            .count();
        ctx.check("words-independent", rep <= 4, ev, "repeated-words", || format!("{} of {} draws of n={} contain two equal 64-bit words", rep, log.len(), n));
    }
}

/// Checkers across the logs of several threads for one (type, n).
fn check_across(ctx: &mut Ctx, ev: &Ev, n: usize, logs: &[Vec<Vec<u64>>]) {
    if n < 6 {
        return;
    }
    // (3) pairwise distinct draws over all threads
    let mut seen: HashMap<&Vec<u64>, usize> = HashMap::new();
    let mut coinciding = 0usize;
    for l in logs {
        for d in l {
            let c = seen.entry(d).or_insert(0);
            coinciding += *c;
            *c += 1;
        }
    }
    let allowed = if n >= 8 { 0 } else { 5 };
    ctx.check("draws-distinct", coinciding <= allowed, ev, "coincide", || format!("{} coinciding pairs among {} draws of n={} ({} allowed)", coinciding, logs.len() * DRAWS, n, allowed));
    ctx.bump("distinct-draws-observed", seen.len() as u64);
    // (5) no two threads with the same sequence prefix
    let mut same_prefix = 0;
    for i in 0..logs.len() {
        for j in (i + 1)..logs.len() {
            if logs[i][..4] == logs[j][..4] {
                same_prefix += 1;
            }
        }
    }
    ctx.check("threads-independent", same_prefix == 0, ev, "same-prefix", || format!("{} pairs of threads drew the same first four tables of n={}", same_prefix, n));
}

fn log_digest(log: &[Vec<u64>]) -> u64 {
    let mut d = Digest::new();
    for x in log {
        d = d.words(x);
    }
    d.get()
}

fn run(ctx: &mut Ctx, ty: &str, n: usize, threads: usize) {
    let is_static = ty == "LutN";
    let ev = Ev::new("draw-logs", ty, n).int(threads);
    let logs: Vec<Outcome<Vec<Vec<u64>>>> = if threads == 1 {
        vec![draw_log_dispatch(is_static, n)]
    } else {
        let barrier = Arc::new(Barrier::new(threads));
        let handles: Vec<_> = (0..threads)
            .map(|_| {
                let b = barrier.clone();
                std::thread::spawn(move || {
                    b.wait();
                    draw_log_dispatch(is_static, n)
                })
            })
            .collect();
        handles.into_iter().map(|h| h.join().expect("harness: drawing thread")).collect()
    };
    let mut ok_logs: Vec<Vec<Vec<u64>>> = Vec::new();
    for l in logs {
        match l {
            Outcome::Returned(l) => {
                let d = log_digest(&l);
                ctx.event_digest(&format!("log|{}|n={}|threads={}", ty, n, threads), d, n >= 1, || ev.clone().int64(d));
                ctx.bump("draws", l.len() as u64);
                check_log(ctx, &ev, n, &l);
                ok_logs.push(l);
            }
            Outcome::Panicked(m) => ctx.violate("no-panic", &ev, "panic", format!("random() panicked for n={}: {}", n, m)),
        }
    }
    check_across(ctx, &ev, n, &ok_logs);
}

/// One thread, sizes and types interleaved according to `schedule`; every (type, n) gets its own log, which is
/// then held to the same monitors.  A generator that keeps state between calls (pools of leftover bits,
/// counters) shows its defects only when tables of different sizes are requested alternately.
fn run_interleaved(ctx: &mut Ctx, kind: &str, schedule: Vec<(bool, usize)>, fresh_thread: bool) {
    let sched = schedule.clone();
    let work = move || -> Outcome<Vec<((bool, usize), Vec<u64>)>> {
        guard(|| {
            sched
                .iter()
                .map(|(st, n)| {
                    let t: Vec<u64> = with_ty!(*st, *n, T => T::t_random(*n).t_blocks().to_vec());
                    ((*st, *n), t)
                })
                .collect()
        })
    };
    let r = if fresh_thread {
        std::thread::spawn(work).join().expect("harness: interleaving thread")
    } else {
        work()
    };
    let mut desc = Ev::new("interleaved", kind, 0);
    for (st, n) in schedule.iter().take(8) {
        desc = desc.int(*n * 2 + *st as usize);
    }
    match r {
        Outcome::Returned(draws) => {
            let mut logs: HashMap<(bool, usize), Vec<Vec<u64>>> = HashMap::new();
            for (k, t) in draws {
                logs.entry(k).or_default().push(t);
            }
            let mut keys: Vec<(bool, usize)> = logs.keys().copied().collect();
            keys.sort();
            for key in keys {
                let log = &logs[&key];
                let (st, n) = key;
                let ty = if st { "LutN" } else { "Lut" };
                let ev = Ev::new("interleaved", ty, n).st(kind).int(log.len());
                ctx.event_digest(&format!("interleaved|{}|{}|n={}", kind, ty, n), log_digest(log), n >= 1, || ev.clone());
                ctx.bump("draws", log.len() as u64);
                if log.len() >= 256 {
                    check_log(ctx, &ev, n, log);
                } else {
                    // short logs (the single leading draw of a schedule): well-formedness only
                    let bad = log.iter().find(|d| well_formed(n, d).is_err());
                    ctx.check("well-formed", bad.is_none(), &ev, "draw", || "random() returned a malformed table".into());
                }
            }
        }
        Outcome::Panicked(m) => ctx.violate("no-panic", &desc, "panic", format!("random() panicked in an interleaved schedule: {}", m)),
    }
}

fn interleaved_workload(ctx: &mut Ctx, thorough: bool, rng: &mut Rng) {
    let sizes: Vec<usize> = (0..=MAX_N).collect();
    // 1/2: all sizes in turn, ascending and descending, both types
    for (kind, order) in [("cycle-ascending", sizes.clone()), ("cycle-descending", sizes.iter().rev().copied().collect::<Vec<_>>())] {
        let mut s = Vec::new();
        for _ in 0..DRAWS {
            for n in &order {
                s.push((false, *n));
                s.push((true, *n));
            }
        }
        run_interleaved(ctx, kind, s, true);
    }
    // 3: every ordered pair of small sizes alternating, on a fresh thread each
    for a in 0..=6usize {
        for b in 0..=6usize {
            if a == b {
                continue;
            }
            let (sa, sb) = if thorough { (rng.bool(), rng.bool()) } else { ((a + b) % 2 == 0, (a * b) % 2 == 1) };
            let mut s = Vec::new();
            for _ in 0..DRAWS {
                s.push((sa, a));
                s.push((sb, b));
            }
            run_interleaved(ctx, "alternating-pair", s, true);
            // 4: one draw of size a, then a run of size b
            let mut s = vec![(sb, a)];
            for _ in 0..DRAWS {
                s.push((sa, b));
            }
            run_interleaved(ctx, "one-then-run", s, true);
        }
    }
    // 5: random schedules (every size exactly DRAWS times), also on the main thread
    for r in 0..if thorough { 12 } else { 2 } {
        let mut s = Vec::new();
        for n in &sizes {
            for _ in 0..DRAWS {
                s.push((rng.bool(), *n));
            }
        }
        rng.shuffle(&mut s);
        // make every (type, n) log long enough: top up to DRAWS per key
        let mut cnt: HashMap<(bool, usize), usize> = HashMap::new();
        for k in &s {
            *cnt.entry(*k).or_insert(0) += 1;
        }
        let mut extra = Vec::new();
        for n in &sizes {
            for st in [false, true] {
                let have = cnt.get(&(st, *n)).copied().unwrap_or(0);
                for _ in have..DRAWS {
                    extra.push((st, *n));
                }
            }
        }
        rng.shuffle(&mut extra);
        s.extend(extra);
        run_interleaved(ctx, "random-order", s, r % 2 == 0);
    }
}

/// Rounds of fresh threads released together by a spin barrier, each making its FIRST call of random() at
/// once (lazily initialised per-thread or process-wide generator state is set up in that call): within a
/// round and across rounds all draws of 256 bits or more must be pairwise distinct.
fn thread_start_rounds(ctx: &mut Ctx, rounds: usize) {
    use std::sync::atomic::{AtomicUsize, Ordering};
    let ev = Ev::new("thread-start-rounds", "Lut+LutN", 8).int(rounds).int(THREADS);
    let mut all: HashMap<Vec<u64>, usize> = HashMap::new();
    let mut coinciding = 0usize;
    let mut draws = 0u64;
    for _ in 0..rounds {
        let ready = Arc::new(AtomicUsize::new(0));
        let handles: Vec<_> = (0..THREADS)
            .map(|_| {
                let ready = ready.clone();
                std::thread::spawn(move || {
                    ready.fetch_add(1, Ordering::SeqCst);
                    while ready.load(Ordering::SeqCst) < THREADS {
                        std::hint::spin_loop();
                    }
                    guard(|| (volute::Lut::random(8).blocks().to_vec(), volute::Lut10::random().blocks().to_vec()))
                })
            })
            .collect();
        for h in handles {
            match h.join().expect("harness: racing thread") {
                Outcome::Returned((a, b)) => {
                    for t in [a, b] {
                        draws += 1;
                        let c = all.entry(t).or_insert(0);
                        coinciding += *c;
                        *c += 1;
                    }
                }
                Outcome::Panicked(m) => ctx.violate("no-panic", &ev, "panic", format!("random() panicked in a freshly started thread: {}", m)),
            }
        }
    }
    ctx.event_digest("thread-start-rounds", rounds as u64, true, || ev.clone());
    ctx.bump("draws", draws);
    ctx.bump("thread-start-rounds", rounds as u64);
    ctx.check("draws-distinct", coinciding == 0, &ev, "thread-start", || {
        format!("{} coinciding pairs among the {} first draws of {} rounds of {} freshly started threads", coinciding, draws, rounds, THREADS)
    });
}

/// Volume: many draws of one size on one thread, all of them pairwise distinct in their first 256 bits.  A
/// generator whose tables are a function of few random bits (a 32-bit key expanded to a whole table) passes every
/// test on a few hundred draws and repeats itself after about 2^16; with D draws of independent 256-bit prefixes a
/// repeat has probability below D^2 / 2^257 (2^-217 for D = 2^20): zero repeats are demanded.
fn volume_distinct(ctx: &mut Ctx, draws: usize) {
    fn run_one(ctx: &mut Ctx, ty: &str, n: usize, draws: usize, draw: &dyn Fn() -> Vec<u64>) {
        let ev = Ev::new("volume", ty, n).int(draws);
        ctx.event_digest(&format!("volume|{}|n={}", ty, n), (n as u64) << 8 | (ty.len() as u64), true, || ev.clone());
        let r = guard(|| {
            let mut keys: Vec<[u64; 4]> = Vec::with_capacity(draws);
            for _ in 0..draws {
                let b = draw();
                keys.push([b[0], b[1], b[2], b[3]]);
            }
            keys.sort_unstable();
            keys.windows(2).filter(|w| w[0] == w[1]).count()
        });
        ctx.bump("draws", draws as u64);
        match r {
            Outcome::Returned(rep) => {
                ctx.check("draws-distinct", rep == 0, &ev, "volume", || {
                    format!("{} of {} draws of {} n={} repeat the first 256 bits of an earlier draw (0 allowed)", rep, draws, ty, n)
                });
            }
            Outcome::Panicked(m) => ctx.violate("no-panic", &ev, "panic", format!("random() panicked: {}", m)),
        }
    }
    for n in 8..=MAX_N {
        run_one(ctx, "Lut", n, draws, &|| volute::Lut::random(n).blocks().to_vec());
    }
    run_one(ctx, "LutN", 8, draws, &|| volute::Lut8::random().blocks().to_vec());
    run_one(ctx, "LutN", 9, draws, &|| volute::Lut9::random().blocks().to_vec());
    run_one(ctx, "LutN", 10, draws, &|| volute::Lut10::random().blocks().to_vec());
    run_one(ctx, "LutN", 11, draws, &|| volute::Lut11::random().blocks().to_vec());
    run_one(ctx, "LutN", 12, draws, &|| volute::Lut12::random().blocks().to_vec());
}

const MAX_N: usize = 12;

fn main() {
    silence_panics();
    let cli = Cli::parse();
    let mut ctx = cli.ctx("C19");
    if let Some(ev) = cli.replay_event() {
        // statistical property: a replay draws again for the same (type, n, threads)
        run(&mut ctx, &ev.ty, ev.n, ev.i(0));
        std::process::exit(vmon::ctx::report_replay(&ctx));
    }
    let rounds = if ctx.thorough() { 60 } else { 1 };
    for _ in 0..rounds {
        for n in 0..=MAX_N + 2 {
            for ty in ["Lut", "LutN"] {
                if ty == "LutN" && n > tbl::MAX_STATIC {
                    continue;
                }
                run(&mut ctx, ty, n, 1);
                run(&mut ctx, ty, n, THREADS);
            }
        }
    }
    let thorough = ctx.thorough();
    thread_start_rounds(&mut ctx, if thorough { 6000 } else { 400 });
    volume_distinct(&mut ctx, if thorough { 1 << 20 } else { 1 << 18 });
    let mut irng = Rng::new(cli.seed ^ 0xc19);
    for _ in 0..if thorough { 4 } else { 1 } {
        interleaved_workload(&mut ctx, thorough, &mut irng);
    }
    let mut required: Vec<String> = Vec::new();
    for n in 0..=MAX_N {
        for ty in ["Lut", "LutN"] {
            for kind in ["cycle-ascending", "cycle-descending", "random-order"] {
                required.push(format!("interleaved|{}|{}|n={}", kind, ty, n));
            }
            required.push(format!("log|{}|n={}|threads=1", ty, n));
            if n == 0 && ty == "Lut" {
                required.push("thread-start-rounds".into());
            }
            required.push(format!("log|{}|n={}|threads={}", ty, n, THREADS));
        }
    }
    cli.finish(&ctx, &required, RULE);
}
