//! C10 — fixed-size LutN and dynamic Lut behave identically; conversions are lossless
//! (DESIGN.md section 3, C10).

use volute::{Lut, Lut3, Lut4, Lut5, Lut6};

use vmon::gen::{self, Fam};
use vmon::ops::{diff_ev, run_op, valid_for, Res, OPS};
use vmon::*;

const RULE: &str = "events: diff = one public operation applied with the same in-range arguments to the LutN and to the \
dynamic Lut holding the same function; the two results (tables block by block, certificates, classes, counts, \
strings, orderings, Ok/Err, panic/no panic) must correspond. conv = LutN->Lut->LutN identity, TryFrom<Lut> for \
every (N, n) pair is Ok iff n = N, and the integer conversions of Lut3..Lut6 are bit-exact bijections (all 2^8 \
and 2^16 values, 2^32 exhaustively in the thorough tier, sampled otherwise; bit m of the integer is value(m)). \
non-trivial = table operand neither constant nor literal (diff), integer not 0/all-ones (conv); distinct = \
distinct (operation, N, arguments)";

fn describe(r: &Outcome<Res>) -> String {
    match r {
        Outcome::Returned(x) => {
            let s = format!("{:?}", x);
            if s.len() > 300 {
                format!("{}...", &s[..300])
            } else {
                s
            }
        }
        Outcome::Panicked(m) => format!("panic({})", m),
    }
}

thread_local! {
    /// a sample of executed events with the description of their results, re-executed later in reverse order
    static REMEMBERED: std::cell::RefCell<Vec<(Ev, String, String)>> = const { std::cell::RefCell::new(Vec::new()) };
}

/// Hidden state monitor: an operation must give the same result whatever was computed before it (caches,
/// memo tables, scratch buffers).  Every 16th event is remembered; `replay_remembered` runs them again, last first.
fn replay_remembered(ctx: &mut Ctx) {
    let list: Vec<(Ev, String, String)> = REMEMBERED.with(|r| std::mem::take(&mut *r.borrow_mut()));
    for (ev, s0, d0) in list.iter().rev() {
        let (s1, d1) = with_static!(ev.n, S => (describe(&guard(|| run_op::<S>(ev))), describe(&guard(|| run_op::<Lut>(ev)))));
        ctx.cell_only("history-independent");
        ctx.check("history-independent", *s0 == s1 && *d0 == d1, ev, &ev.op.clone(), || {
            format!("{} on N={} gives a different result when executed again later: LutN {} -> {} ; Lut {} -> {}", ev.op, ev.n, s0, s1, d0, d1)
        });
    }
}

fn exec_diff<S: Tbl>(ctx: &mut Ctx, ev: &Ev) {
    let n = ev.n;
    let ma = Model::from_blocks(n, &ev.tabs[0]);
    ctx.event(&format!("diff|{}|N={}", ev.op, n), ev, ma.nontrivial());
    let rs = guard(|| run_op::<S>(ev));
    let rd = guard(|| run_op::<Lut>(ev));
    let same = match (&rs, &rd) {
        (Outcome::Returned(x), Outcome::Returned(y)) => x == y,
        (Outcome::Panicked(_), Outcome::Panicked(_)) => true,
        _ => false,
    };
    if rs.is_panic() && rd.is_panic() {
        ctx.bump("both-panicked", 1);
    }
    if ctx.evaluations % 16 == 0 && !matches!(ev.op.as_str(), "npn_canon" | "p_canon") {
        REMEMBERED.with(|r| {
            let mut r = r.borrow_mut();
            if r.len() < 4000 {
                r.push((ev.clone(), describe(&rs), describe(&rd)));
            }
        });
    }
    ctx.check("static-equals-dynamic", same, ev, &ev.op.clone(), || {
        format!("{} on N={} differs: LutN -> {} ; Lut -> {}", ev.op, n, describe(&rs), describe(&rd))
    });
}

fn exec_random<S: Tbl>(ctx: &mut Ctx, ev: &Ev) {
    let n = ev.n;
    ctx.event(&format!("random-wellformed|N={}", n), ev, true);
    for _ in 0..8 {
        match guard(|| (S::t_random(n), Lut::random(n))) {
            Outcome::Returned((s, d)) => {
                let ok = vmon::obs::well_formed(n, s.t_blocks()).is_ok() && vmon::obs::well_formed(n, d.blocks()).is_ok() && d.num_vars() == n;
                ctx.check("random-wellformed", ok, ev, "random", || "random() returned a malformed table".into());
            }
            Outcome::Panicked(m) => ctx.violate("no-panic", ev, "random", format!("random() panicked: {}", m)),
        }
    }
}

fn exec_roundtrip<S: Tbl>(ctx: &mut Ctx, ev: &Ev) {
    // LutN -> Lut -> LutN identity, and TryFrom<Lut> from every size
    let n = ev.n;
    let ma = Model::from_blocks(n, &ev.tabs[0]);
    ctx.event(&format!("conv-roundtrip|N={}", n), ev, ma.nontrivial());
    match guard(|| {
        let s = S::t_from_blocks(n, &ev.tabs[0]);
        let d = s.to_dyn();
        let back = S::try_from_dyn(d.clone());
        (s, d, back)
    }) {
        Outcome::Returned((s, d, back)) => {
            ctx.check("to-dyn-exact", d.num_vars() == n && d.blocks() == s.t_blocks(), ev, "to_dyn", || "Lut::from(LutN) changed the table".into());
            ctx.check("roundtrip-identity", back.as_ref().map(|b| *b == s).unwrap_or(false), ev, "roundtrip", || "LutN -> Lut -> LutN is not the identity".into());
        }
        Outcome::Panicked(m) => ctx.violate("no-panic", ev, "roundtrip", format!("conversion panicked: {}", m)),
    }
}

fn exec_tryfrom<S: Tbl>(ctx: &mut Ctx, ev: &Ev) {
    let n = ev.n; // the static size N
    let other = ev.i(0); // the dynamic size
    ctx.event(&format!("conv-tryfrom|N={}", n), ev, true);
    let d = Lut::from_blocks(other, &ev.tabs[0]);
    match guard(|| S::try_from_dyn(d.clone())) {
        Outcome::Returned(r) => {
            ctx.check("tryfrom-ok-iff-same-size", r.is_ok() == (other == n), ev, if other == n { "same" } else { "different" }, || {
                format!("TryFrom<Lut> of a {}-variable Lut into Lut{} returned {}", other, n, if r.is_ok() { "Ok" } else { "Err" })
            });
            if let Ok(s) = r {
                ctx.check("tryfrom-exact", s.t_blocks() == d.blocks(), ev, "value", || "TryFrom<Lut> changed the table".into());
            }
        }
        Outcome::Panicked(m) => ctx.violate("no-panic", ev, if other == n { "same" } else { "different" }, format!("TryFrom<Lut> of a {}-variable Lut into Lut{} panicked: {}", other, n, m)),
    }
}

macro_rules! int_conv {
    ($ctx:expr, $ev:expr, $L:ty, $I:ty, $bits:expr, $x:expr) => {{
        let x: $I = $x as $I;
        match guard(|| {
            let l = <$L>::from(x);
            let back: $I = l.into();
            let vals: Vec<bool> = (0..$bits).map(|m| l.value(m)).collect();
            let l2 = <$L>::from_blocks(&[x as u64]);
            let b2: $I = l2.into();
            (l.blocks().to_vec(), back, vals, b2, l == l2)
        }) {
            Outcome::Returned((blocks, back, vals, b2, same)) => {
                let bits_ok = (0..$bits).all(|m| vals[m] == ((x as u64 >> m) & 1 == 1));
                $ctx.check("int-bit-exact", blocks == vec![x as u64] && back == x && b2 == x && same && bits_ok, $ev, "int", || {
                    format!("integer {:#x}: blocks {:x?}, converted back {:#x}", x, blocks, back)
                });
            }
            Outcome::Panicked(m) => $ctx.violate("no-panic", $ev, "int", format!("integer conversion of {:#x} panicked: {}", x, m)),
        }
    }};
}

fn exec_int(ctx: &mut Ctx, ev: &Ev) {
    let n = ev.n;
    let x = ev.ints[0];
    let trivial = x == 0 || x == (if n == 6 { u64::MAX } else { (1u64 << (1u64 << n)) - 1 });
    ctx.event(&format!("conv-int|N={}", n), ev, !trivial);
    match n {
        3 => int_conv!(ctx, ev, Lut3, u8, 8, x),
        4 => int_conv!(ctx, ev, Lut4, u16, 16, x),
        5 => int_conv!(ctx, ev, Lut5, u32, 32, x),
        6 => int_conv!(ctx, ev, Lut6, u64, 64, x),
        _ => panic!("harness: no integer conversion for {}", n),
    }
}

/// The `all_functions` iterators of the two types driven through the same script of `Iterator` methods (nth, skip,
/// step_by, take, min/max, count, last, fold; see iterprobe.rs): the observations must be the same, step by step.
fn exec_iter<S: Tbl>(ctx: &mut Ctx, ev: &Ev) {
    use vmon::iterprobe as ip;
    let n = ev.n;
    let (fresh, script) = ip::ints_to_script(&ev.ints);
    ctx.event(&format!("iter-script|N={}", n), ev, true);
    let strip = |v: Vec<ip::Obs>| -> Vec<ip::Obs> { v.into_iter().filter(|o| !matches!(o, ip::Obs::Hint(..))).collect() };
    let start_s: Option<S> = if fresh { None } else { Some(S::t_from_blocks(n, &ev.tabs[0])) };
    let start_d: Option<Lut> = if fresh { None } else { Some(Lut::from_blocks(n, &ev.tabs[0])) };
    if let Some(rem) = ip::Pos::new(n, &ev.tabs[0]).remaining() {
        if rem <= 4 * ip::MAX_DEFAULT_COST {
            let ends = guard(|| (S::t_iter_ends_within(n, start_s.as_ref(), rem), <Lut as Tbl>::t_iter_ends_within(n, start_d.as_ref(), rem)));
            match ends {
                Outcome::Returned((true, true)) => {}
                other => {
                    ctx.violate("iterators-correspond", ev, "iter-script-preflight", format!(
                        "stepping the iterators with next() from {}: (LutN ends, Lut ends) within the {} tables left = {:?} (script not run)",
                        if fresh { "the start".to_string() } else { vmon::ctx::hex_of_blocks(&ev.tabs[0]) }, rem,
                        match other { Outcome::Returned(x) => format!("{:?}", x), Outcome::Panicked(m) => format!("panic({})", m) }));
                    return;
                }
            }
        }
    }
    // the position model is used as a guard only (stop at the first disagreement with it, probe `next()` before a
    // step on an exhausted sequence): the verdict of this check is the comparison of the two iterators
    let mut expect = ip::expect_at(ip::Pos::new(n, &ev.tabs[0]), &script);
    expect.terminal_on_exhausted = n <= 4;
    let rs = guard(|| strip(S::t_iter_script(n, start_s.as_ref(), &script, Some(&expect))));
    let rd = guard(|| strip(<Lut as Tbl>::t_iter_script(n, start_d.as_ref(), &script, Some(&expect))));
    let same = match (&rs, &rd) {
        (Outcome::Returned(a), Outcome::Returned(b)) => a == b,
        (Outcome::Panicked(_), Outcome::Panicked(_)) => true,
        _ => false,
    };
    ctx.check("iterators-correspond", same, ev, "iter-script", || {
        let d = |r: &Outcome<Vec<ip::Obs>>| match r {
            Outcome::Returned(v) => format!("{:x?}", v),
            Outcome::Panicked(m) => format!("panic({})", m),
        };
        format!("script {:?} from {}: LutN observed {} ; Lut observed {}",
            script.iter().map(|(k, a)| format!("{}({})", ip::kind_name(*k), a)).collect::<Vec<_>>(),
            if fresh { "fresh iterators".to_string() } else { format!("position {}", vmon::ctx::hex_of_blocks(&ev.tabs[0])) },
            d(&rs), d(&rd))
    });
}

/// A workload generator, not a monitor: the representative of `a` (computed by the dynamic `Lut`, whatever it
/// is worth) with random input complementations / output complementation applied by the model — for P
/// canonization a random transposition instead.  Guarded: if the library panics the original table is used.
fn directed_input(op: &str, n: usize, a: &[u64], rng: &mut Rng) -> Vec<u64> {
    let l = Lut::from_blocks(n, a);
    let rep = match guard(|| match op {
        "p_canon" => l.p_canonization().0,
        "n_canon" => l.n_canonization().0,
        _ => l.npn_canonization().0,
    }) {
        Outcome::Returned(r) => r,
        Outcome::Panicked(_) => return a.to_vec(),
    };
    let m = Model::from_blocks(n, rep.blocks());
    let id: Vec<usize> = (0..n).collect();
    let img = match op {
        "p_canon" => {
            if rng.bool() {
                m
            } else {
                m.swap(rng.below(n), rng.below(n))
            }
        }
        "n_canon" => m.apply_npn(&id, rng.below(1 << n), false),
        _ => m.apply_npn(&id, rng.below(1 << n), rng.bool()),
    };
    img.to_blocks()
}

/// The formatting traits with the format spec as an argument: width, fill, alignment, precision, `#`, `+`, `0`.
/// Whatever a spec does to the text, it must do the same for both types.
fn exec_fmt<S: Tbl>(ctx: &mut Ctx, ev: &Ev) {
    let n = ev.n;
    ctx.event(&format!("fmt-specs|N={}", n), ev, Model::from_blocks(n, &ev.tabs[0]).nontrivial());
    let s = S::t_from_blocks(n, &ev.tabs[0]);
    let d = Lut::from_blocks(n, &ev.tabs[0]);
    match guard(|| (vmon::fmtprobe::all_spec_outputs(&s), vmon::fmtprobe::all_spec_outputs(&d))) {
        Outcome::Returned((a, b)) => {
            ctx.checked("static-equals-dynamic", a.len() as u64);
            if let Some(((spec, x), (_, y))) = a.iter().zip(b.iter()).find(|(x, y)| x.1 != y.1) {
                ctx.violate("static-equals-dynamic", ev, "format-spec", format!("format spec {} prints the LutN as {:?} and the Lut as {:?}", spec, x, y));
            }
        }
        Outcome::Panicked(m) => ctx.violate("static-equals-dynamic", ev, "format-spec-panic", format!("formatting with a format spec panicked: {}", m)),
    }
}

fn exec(ctx: &mut Ctx, ev: &Ev) {
    match ev.ty.as_str() {
        "fmt" => with_static!(ev.n, S => exec_fmt::<S>(ctx, ev)),
        "iter" => with_static!(ev.n, S => exec_iter::<S>(ctx, ev)),
        "diff" => with_static!(ev.n, S => exec_diff::<S>(ctx, ev)),
        "random" => with_static!(ev.n, S => exec_random::<S>(ctx, ev)),
        "roundtrip" => with_static!(ev.n, S => exec_roundtrip::<S>(ctx, ev)),
        "tryfrom" => with_static!(ev.n, S => exec_tryfrom::<S>(ctx, ev)),
        "int" => exec_int(ctx, ev),
        other => panic!("harness: unknown event type {}", other),
    }
}

const MAX_N: usize = 12;

fn main() {
    silence_panics();
    let cli = Cli::parse();
    let mut ctx = cli.ctx("C10");
    if let Some(ev) = cli.replay_event() {
        exec(&mut ctx, &ev);
        std::process::exit(vmon::ctx::report_replay(&ctx));
    }
    let thorough = ctx.thorough();
    let seed = cli.seed;
    let mut shards: Vec<(&str, usize, usize, usize)> = Vec::new();
    for n in 0..=MAX_N {
        for c in 0..4 {
            shards.push(("diff", n, c, 4));
        }
        shards.push(("conv", n, 0, 1));
    }
    let int_chunks = if thorough { 256 } else { 16 };
    for c in 0..int_chunks {
        shards.push(("int", 0, c, int_chunks));
    }
    run_sharded(&mut ctx, cli.threads, shards.len(), |ctx, k| {
        let (kind, n, c, chunks) = shards[k];
        let mut rng = Rng::new(seed ^ ((n as u64) << 30) ^ ((c as u64) << 50) ^ ((kind.len() as u64) << 58));
        match kind {
            "diff" => {
                let reps = match (thorough, n) {
                    (false, 0..=6) => 24,
                    (false, _) => 8,
                    (true, 0..=6) => 2400,
                    (true, _) => 400,
                };
                for rep in 0..reps {
                    for (oi, op) in OPS.iter().enumerate() {
                        if !valid_for(op, n) {
                            continue;
                        }
                        // expensive canonizations: fewer repetitions
                        if (*op == "npn_canon" && n >= 7 && (rep > 0 || c > 0)) || (*op == "p_canon" && n >= 8 && rep > 1) {
                            continue;
                        }
                        let fa = Fam::ALL[(rep + oi + c) % Fam::ALL.len()];
                        let a = gen::gen(if rep % 2 == 0 { Fam::Random } else { fa }, n, &mut rng);
                        let b = match rng.below(4) {
                            0 => a.clone(),
                            1 => {
                                let mut x = a.clone();
                                let m = rng.below(1 << n);
                                x[m / 64] ^= 1u64 << (m % 64);
                                x
                            }
                            _ => gen::any_fam(n, &mut rng).1,
                        };
                        // canonizations: half of the time (always for the few expensive ones) the input is a
                        // representative with only complementations applied, i.e. a function whose representative
                        // is reached under the identity permutation (1 in n! random inputs is of that kind)
                        let a = if matches!(*op, "p_canon" | "n_canon" | "npn_canon") && n >= 2 && (n >= 7 || rng.bool()) {
                            directed_input(op, n, &a, &mut rng)
                        } else {
                            a
                        };
                        exec(ctx, &diff_ev(op, n, &a, &b, &mut rng));
                    }
                }
                if n <= 2 && c == 0 {
                    // all functions for the tiny sizes, every operation
                    let count: u64 = 1u64 << (1u64 << n);
                    for x in 0..count {
                        for y in 0..count {
                            for op in OPS {
                                if valid_for(op, n) {
                                    exec(ctx, &diff_ev(op, n, &[x], &[y], &mut rng));
                                }
                            }
                        }
                    }
                    ctx.exhaustive.insert(format!("every operation on all pairs of functions, N={}", n), true);
                }
                exec(ctx, &Ev::new("random", "random", n));
                replay_remembered(ctx);
            }
            "conv" => {
                let reps = if thorough { 400 } else { 30 };
                for _ in 0..reps {
                    let (_, a) = gen::any_fam(n, &mut rng);
                    exec(ctx, &Ev::new("roundtrip", "roundtrip", n).tab(&a));
                }
                for _ in 0..if thorough { 4000 } else { 200 } {
                    let (fresh, start) = vmon::iterprobe::gen_start(n, &mut rng);
                    let script = vmon::iterprobe::gen_script(n, &start, &mut rng);
                    let mut e = Ev::new("iter-script", "iter", n).tab(&start);
                    e.ints = vmon::iterprobe::script_to_ints(fresh, &script);
                    exec(ctx, &e);
                }
                for _ in 0..if thorough { 300 } else { 12 } {
                    let (_, a) = gen::any_fam(n, &mut rng);
                    exec(ctx, &Ev::new("fmt-specs", "fmt", n).tab(&a));
                }
                for other in 0..=13usize {
                    for _ in 0..if thorough { 20 } else { 3 } {
                        let (_, a) = gen::any_fam(other, &mut rng);
                        exec(ctx, &Ev::new("tryfrom", "tryfrom", n).int(other).tab(&a));
                    }
                }
            }
            _ => {
                // integer conversions: all u8, all u16, u32 exhaustive in thorough, sampled otherwise
                if c == 0 {
                    for x in 0..256u64 {
                        exec_int(ctx, &Ev::new("int", "int", 3).int64(x));
                    }
                    ctx.exhaustive.insert("u8 <-> Lut3, all 256 values".into(), true);
                }
                for x in 0..65536u64 {
                    if (x as usize) % chunks == c {
                        exec_int(ctx, &Ev::new("int", "int", 4).int64(x));
                    }
                }
                ctx.exhaustive.insert("u16 <-> Lut4, all 65536 values".into(), true);
                if thorough {
                    // exhaustive 2^32 sweep of the round trip and of blocks()[0] == x (no event objects:
                    // counted in bulk), with the bit-by-bit monitor on a sample
                    let lo = (c as u64) << 24;
                    let hi = lo + (1u64 << 24);
                    let mut bad: Option<u64> = None;
                    for x in lo..hi {
                        let xi = x as u32;
                        let l = Lut5::from(xi);
                        let back: u32 = l.into();
                        if l.blocks()[0] != x || back != xi {
                            bad = Some(x);
                            break;
                        }
                    }
                    ctx.evaluations += 1u64 << 24;
                    ctx.checked("int-bit-exact", 1u64 << 24);
                    ctx.bump("u32-values-swept-exhaustively", 1u64 << 24);
                    if let Some(x) = bad {
                        exec_int(ctx, &Ev::new("int", "int", 5).int64(x));
                    }
                    ctx.exhaustive.insert("u32 <-> Lut5 round trip, all 2^32 values".into(), true);
                }
                let reps = if thorough { 20000 } else { 4000 };
                for r in 0..reps {
                    let x = match r % 8 {
                        0 => 1u64 << rng.below(64),
                        1 => !(1u64 << rng.below(64)),
                        2 => u64::MAX >> rng.below(64),
                        3 => u64::MAX << rng.below(64),
                        _ => rng.next_u64(),
                    };
                    exec_int(ctx, &Ev::new("int", "int", 5).int64(x & 0xffff_ffff));
                    exec_int(ctx, &Ev::new("int", "int", 6).int64(x));
                }
                if c == 0 {
                    for x in [0u64, u64::MAX, 0xffff_ffff, 0x8000_0000, 0x8000_0000_0000_0000, 1] {
                        exec_int(ctx, &Ev::new("int", "int", 6).int64(x));
                        exec_int(ctx, &Ev::new("int", "int", 5).int64(x & 0xffff_ffff));
                    }
                }
            }
        }
    });
    // hidden-state monitor: sampled events of all shards again, mixed, on one thread (ctx::run_mix)
    run_mix(&mut ctx, seed, |c, e| exec(c, e));
    // and concurrently: the same sample on several threads at once (shared state inside the library)
    run_mix_concurrent(&mut ctx, seed, cli.threads, |c, e| exec(c, e));
    let mut required: Vec<String> = Vec::new();
    for n in 0..=MAX_N {
        for op in OPS {
            if valid_for(op, n) {
                required.push(format!("diff|{}|N={}", op, n));
            }
        }
        required.push(format!("conv-roundtrip|N={}", n));
        required.push(format!("conv-tryfrom|N={}", n));
        required.push(format!("random-wellformed|N={}", n));
        required.push(format!("iter-script|N={}", n));
        required.push(format!("fmt-specs|N={}", n));
    }
    for n in 3..=6 {
        required.push(format!("conv-int|N={}", n));
    }
    required.push("history-independent".into());
    cli.finish(&ctx, &required, RULE);
}
