//! C17 — invalid indices and size mismatches panic identically in every build profile; profiles agree on
//! valid arguments (DESIGN.md section 3, C17).
//!
//! This binary is run once per build profile.  Each run appends one line per event to its own log
//! (`--log`): id, part (A = invalid argument, B = valid arguments), outcome (`panic` or
//! `return:<digest>`), signature, event.  Part A events that return and part B events that panic are
//! violations by themselves; the driver's offline checker then diffs the two logs.

use std::io::Write;

use volute::Lut;

use vmon::gen::{self, Fam};
use vmon::ops::{diff_ev, run_op, valid_for, OPS};
use vmon::tbl::BinOp;
use vmon::*;

const RULE: &str = "part A event = one call of an index-taking / size-sensitive entry point of Lut or LutN with an invalid \
argument (variable index in n..=n+70 or usize::MAX, assignment in 2^n..=2^n+70 or usize::MAX, operand of a \
different size, block slice of the wrong length): it must panic, in both build profiles. part B event = one \
public operation with valid arguments: it must return, and the digests of the results in the two profiles' \
logs must be identical. non-trivial: every part A event, and part B events whose table operand is not \
constant; distinct = distinct (entry point, type, n, arguments)";

struct Logger {
    out: std::io::BufWriter<std::fs::File>,
    next: u64,
}

impl Logger {
    fn line(&mut self, part: &str, outcome: &str, sig: &str, ev: &Ev) {
        let _ = writeln!(self.out, "{}-{:07}\t{}\t{}\t{}\t{}", part, self.next, part, outcome, sig, ev.to_json().to_string());
        self.next += 1;
    }
}

fn index_class(n: usize, i: usize) -> &'static str {
    if i == usize::MAX {
        "MAX"
    } else if i == n {
        "n"
    } else if i <= n + 5 {
        "n+1..n+5"
    } else if (62..=66).contains(&i) {
        "around-64"
    } else if i >= n + 64 {
        "n+64..n+70"
    } else {
        "other"
    }
}

/// Invalid-argument call.  ints: [bad index / assignment, second index, which]
fn run_invalid<T: Tbl>(ev: &Ev) -> String {
    let n = ev.n;
    // operands with a history (clone_from over another size, ...): the argument checks must look at what the
    // value is now
    let d = ev.digest();
    let a = T::t_via_route(n, &ev.tabs[0], d).0;
    let b = T::t_via_route(n, &ev.tabs[1], d.rotate_left(17)).0;
    let bad = ev.i(0);
    let ok = ev.i(1);
    let r: String = match ev.op.as_str() {
        "nth_var" => format!("{:?}", T::t_nth_var(n, bad).t_blocks()),
        "value" => format!("{}", a.t_value(bad)),
        "get_bit" => format!("{}", a.t_get_bit(bad)),
        "set_bit" => {
            let mut x = a.clone();
            x.t_set_bit(bad);
            format!("{:?}", x.t_blocks())
        }
        "unset_bit" => {
            let mut x = a.clone();
            x.t_unset_bit(bad);
            format!("{:?}", x.t_blocks())
        }
        "set_value(true)" => {
            let mut x = a.clone();
            x.t_set_value(bad, true);
            format!("{:?}", x.t_blocks())
        }
        "set_value(false)" => {
            let mut x = a.clone();
            x.t_set_value(bad, false);
            format!("{:?}", x.t_blocks())
        }
        "flip" => format!("{:?}", a.t_flip(bad).t_blocks()),
        "flip_inplace" => {
            let mut x = a.clone();
            x.t_flip_inplace(bad);
            format!("{:?}", x.t_blocks())
        }
        "swap(bad,ok)" => format!("{:?}", a.t_swap(bad, ok).t_blocks()),
        "swap(ok,bad)" => format!("{:?}", a.t_swap(ok, bad).t_blocks()),
        "swap(bad,bad)" => format!("{:?}", a.t_swap(bad, bad).t_blocks()),
        "swap_inplace(bad,ok)" => {
            let mut x = a.clone();
            x.t_swap_inplace(bad, ok);
            format!("{:?}", x.t_blocks())
        }
        "swap_inplace(ok,bad)" => {
            let mut x = a.clone();
            x.t_swap_inplace(ok, bad);
            format!("{:?}", x.t_blocks())
        }
        "swap_adjacent" => {
            let mut x = a.clone();
            format!("{:?}", x.t_swap_adjacent(bad).t_blocks())
        }
        "swap_adjacent_inplace" => {
            let mut x = a.clone();
            x.t_swap_adjacent_inplace(bad);
            format!("{:?}", x.t_blocks())
        }
        "cofactors" => {
            let (c0, c1) = a.t_cofactors(bad);
            format!("{:?} {:?}", c0.t_blocks(), c1.t_blocks())
        }
        "from_cofactors" => format!("{:?}", T::t_from_cofactors(&a, &b, bad).t_blocks()),
        // one object as both cofactors (shortcuts keyed on pointer equality must not skip the index check)
        "from_cofactors(aliased)" => format!("{:?}", T::t_from_cofactors(&a, &a, bad).t_blocks()),
        "top_decomposition" => format!("{:?}", a.t_top_decomposition(bad)),
        "is_pos_unate" => format!("{}", a.t_is_pos_unate(bad)),
        "is_neg_unate" => format!("{}", a.t_is_neg_unate(bad)),
        "from_blocks(wrong-length)" => {
            // ints[0] = the wrong length
            let blocks = vec![0u64; bad];
            format!("{:?}", T::t_from_blocks(n, &blocks).t_blocks())
        }
        other => panic!("harness: unknown invalid-argument op {}", other),
    };
    r
}

/// Size-mismatched operands (dynamic Lut only).  n = size of a, ints[0] = size of b, ints[1] = form
fn run_mismatch(ev: &Ev) -> String {
    let a = Lut::from_blocks(ev.n, &ev.tabs[0]);
    let b = Lut::from_blocks(ev.i(0), &ev.tabs[1]);
    let form = ev.i(1);
    match ev.op.as_str() {
        "and-form" => format!("{:?}", <Lut as Tbl>::t_bin_form(BinOp::And, form, &a, &b).0.blocks()),
        "or-form" => format!("{:?}", <Lut as Tbl>::t_bin_form(BinOp::Or, form, &a, &b).0.blocks()),
        "xor-form" => format!("{:?}", <Lut as Tbl>::t_bin_form(BinOp::Xor, form, &a, &b).0.blocks()),
        "from_cofactors(mismatched)" => format!("{:?}", Lut::from_cofactors(&a, &b, 0).blocks()),
        "bdd_complexity(mixed)" => format!("{}", Lut::bdd_complexity(&[a, b])),
        "bdd_complexity(mixed-3)" => format!("{}", Lut::bdd_complexity(&[a.clone(), a, b])),
        "bdd_complexity(mixed-list)" => {
            // ints[2..] = the sizes of the listed tables (not all equal); tables are projections / constants
            let list: Vec<Lut> = ev.ints[2..]
                .iter()
                .enumerate()
                .map(|(k, s)| {
                    let s = *s as usize;
                    if s > 0 && k % 2 == 0 {
                        Lut::nth_var(s, k % s)
                    } else {
                        Lut::one(s)
                    }
                })
                .collect();
            format!("{}", Lut::bdd_complexity(&list))
        }
        other => panic!("harness: unknown mismatch op {}", other),
    }
}

fn part_a(ctx: &mut Ctx, log: &mut Logger, ev: &Ev) {
    let n = ev.n;
    let class = if ev.ty == "Lut-mismatch" {
        format!("sizes-{}-{}", if ev.n < ev.i(0) { "small-large" } else { "large-small" }, if gen::words(ev.n) == gen::words(ev.i(0)) { "same-words" } else { "different-words" })
    } else if ev.op == "from_blocks(wrong-length)" {
        format!("len-{}", if ev.i(0) == 0 { "0".to_string() } else if ev.i(0) < gen::words(n) { "short".into() } else { "long".into() })
    } else if matches!(ev.op.as_str(), "value" | "get_bit" | "set_bit" | "unset_bit" | "set_value(true)" | "set_value(false)") {
        let m = ev.i(0);
        (if m == usize::MAX { "MAX" } else if m == 1usize << n { "2^n" } else { "2^n+k" }).to_string()
    } else {
        let eff = if ev.op.starts_with("swap_adjacent") { ev.i(0).saturating_add(1) } else { ev.i(0) };
        index_class(n, eff).to_string()
    };
    let cell = format!("A|{}|{}|n={}|{}", ev.op, ev.ty, n, class);
    ctx.event(&cell, ev, true);
    let r = if ev.ty == "Lut-mismatch" {
        guard(|| run_mismatch(ev))
    } else {
        with_ty!(ev.is_static(), n, T => guard(|| run_invalid::<T>(ev)))
    };
    let sig = format!("must-panic|{}|{}|{}|{}", ev.ty, ev.op, n, class);
    match r {
        Outcome::Panicked(_) => {
            ctx.checked("must-panic", 1);
            log.line("A", "panic", &sig, ev);
        }
        Outcome::Returned(v) => {
            let short: String = v.chars().take(120).collect();
            log.line("A", &format!("return:{:016x}", Digest::new().str(&v).get()), &sig, ev);
            let profile = ctx.profile.clone();
            ctx.check("must-panic", false, ev, &class, || {
                format!("{} with an invalid argument ({}) returned {} instead of panicking (build profile {})", ev.op, class, short, profile)
            });
        }
    }
}

fn part_b(ctx: &mut Ctx, log: &mut Logger, ev: &Ev) {
    let n = ev.n;
    let ma = Model::from_blocks(n, &ev.tabs[0]);
    let is_static = ev.ty == "LutN";
    ctx.event(&format!("B|{}|{}|n={}", ev.op, ev.ty, n), ev, ma.is_const().is_none());
    let r = with_ty!(is_static, n, T => guard(|| format!("{:?}", run_op::<T>(ev))));
    let sig = format!("valid-returns|{}|{}|{}|valid", ev.ty, ev.op, n);
    match r {
        Outcome::Returned(s) => {
            ctx.checked("valid-returns", 1);
            log.line("B", &format!("return:{:016x}", Digest::new().str(&s).get()), &sig, ev);
        }
        Outcome::Panicked(m) => {
            log.line("B", "panic", &sig, ev);
            ctx.check("valid-returns", false, ev, "valid", || format!("{} panicked on valid arguments (n={}): {}", ev.op, n, m));
        }
    }
}

fn replay(ctx: &mut Ctx, ev: &Ev) {
    let mut log = Logger { out: std::io::BufWriter::new(std::fs::File::create("/dev/null").expect("harness: /dev/null")), next: 0 };
    if ev.strs.is_empty() {
        part_a(ctx, &mut log, ev);
    } else {
        part_b(ctx, &mut log, ev);
    }
}

const INDEX_OPS: [&str; 21] = [
    "nth_var", "flip", "flip_inplace", "swap(bad,ok)", "swap(ok,bad)", "swap(bad,bad)", "swap_inplace(bad,ok)",
    "swap_inplace(ok,bad)", "swap_adjacent", "swap_adjacent_inplace", "cofactors", "from_cofactors", "from_cofactors(aliased)",
    "top_decomposition", "is_pos_unate", "is_neg_unate", "value", "get_bit", "set_bit", "unset_bit", "set_value(true)",
];

const MAX_N: usize = 8;

fn main() {
    silence_panics();
    let cli = Cli::parse();
    let mut ctx = cli.ctx("C17");
    if let Some(ev) = cli.replay_event() {
        replay(&mut ctx, &ev);
        std::process::exit(vmon::ctx::report_replay(&ctx));
    }
    let thorough = ctx.thorough();
    let log_path = cli.extra.get("log").cloned().unwrap_or_else(|| "/dev/null".into());
    let mut log = Logger { out: std::io::BufWriter::new(std::fs::File::create(&log_path).expect("harness: log file")), next: 0 };
    // single-threaded on purpose: the event ids must be the same sequence in both profiles
    let mut rng = Rng::new(cli.seed ^ 0xc17);
    // ---------------- part A ----------------
    for n in 0..=MAX_N + if thorough { 4 } else { 0 } {
        for ty in ["Lut", "LutN"] {
            let reps = if thorough { 8 } else { 1 };
            for rep in 0..reps {
                let a = gen::gen(if rep == 0 { Fam::Const } else { Fam::Random }, n, &mut rng);
                let a = if rep == 0 { Model::constant(n, true).to_blocks() } else { a };
                let b = gen::random_blocks(n, &mut rng);
                for op in INDEX_OPS.iter().chain(["set_value(false)"].iter()) {
                    let assignment = matches!(*op, "value" | "get_bit" | "set_bit" | "unset_bit" | "set_value(true)" | "set_value(false)");
                    let base = if assignment { 1usize << n } else if op.starts_with("swap_adjacent") { n.saturating_sub(1) } else { n };
                    let mut bads: Vec<usize> = (0..=70).map(|k| base + k).collect();
                    bads.push(usize::MAX);
                    bads.push(usize::MAX - 1);
                    bads.push(1usize << 32);
                    bads.push((1usize << 63) + base);
                    if op.starts_with("swap_adjacent") && n == 0 {
                        bads.push(0);
                    }
                    for bad in bads {
                        if op.starts_with("swap_adjacent") && n >= 1 && bad.saturating_add(1) < n {
                            continue;
                        }
                        let ok = if n > 0 { rng.below(n) } else { 0 };
                        if n == 0 && (*op == "swap(bad,ok)" || *op == "swap(ok,bad)" || *op == "swap_inplace(bad,ok)" || *op == "swap_inplace(ok,bad)") {
                            // there is no valid index to pair with: both are invalid, still must panic
                        }
                        let ev = Ev::new(op, ty, n).tab(&a).tab(&b).int(bad).int(ok);
                        part_a(&mut ctx, &mut log, &ev);
                    }
                }
                // from_blocks with a slice of the wrong length
                let w = gen::words(n);
                for len in [0usize, w - 1, w + 1, 2 * w, w + 7, 3] {
                    if len == w {
                        continue;
                    }
                    let ev = Ev::new("from_blocks(wrong-length)", ty, n).tab(&a).tab(&b).int(len).int(0);
                    part_a(&mut ctx, &mut log, &ev);
                }
            }
        }
        // operands of different sizes (dynamic Lut)
        for nb in 0..=MAX_N + 2 {
            if nb == n {
                continue;
            }
            let a = gen::random_blocks(n, &mut rng);
            let b = gen::random_blocks(nb, &mut rng);
            for op in ["and-form", "or-form", "xor-form"] {
                for form in 0..8 {
                    let ev = Ev::new(op, "Lut-mismatch", n).tab(&a).tab(&b).int(nb).int(form);
                    part_a(&mut ctx, &mut log, &ev);
                }
            }
            // lists of 3..6 tables of mixed sizes: one odd size anywhere, and size multisets whose total bit count
            // equals that of a uniform list (a, a+1, a-1, a-1 and permutations, padded with more a's)
            if nb == n + 1 && n >= 1 {
                let s = n as u64;
                let mut lists: Vec<Vec<u64>> = vec![
                    vec![s, s + 1, s - 1, s - 1],
                    vec![s, s - 1, s + 1, s - 1],
                    vec![s, s - 1, s - 1, s + 1],
                    vec![s, s, s + 1, s - 1, s - 1],
                    vec![s, s + 1, s - 1, s - 1, s],
                    vec![s, s, s, s + 1],
                    vec![s, s - 1, s, s],
                    vec![s + 1, s, s],
                ];
                for _ in 0..6 {
                    let len = rng.range(3, 6);
                    let mut l: Vec<u64> = (0..len).map(|_| rng.below(9) as u64).collect();
                    if l.iter().all(|x| *x == l[0]) {
                        l[len - 1] = (l[0] + 1) % 9;
                    }
                    lists.push(l);
                }
                for l in lists {
                    let mut ev = Ev::new("bdd_complexity(mixed-list)", "Lut-mismatch", n).tab(&a).tab(&b).int(nb).int(0);
                    ev.ints.extend(l);
                    part_a(&mut ctx, &mut log, &ev);
                }
            }
            for op in ["from_cofactors(mismatched)", "bdd_complexity(mixed)", "bdd_complexity(mixed-3)"] {
                if op == "from_cofactors(mismatched)" && (n == 0 || nb == 0) {
                    continue; // index 0 is invalid anyway for 0 variables; covered by the index part
                }
                let ev = Ev::new(op, "Lut-mismatch", n).tab(&a).tab(&b).int(nb).int(0);
                part_a(&mut ctx, &mut log, &ev);
            }
        }
    }
    // ---------------- part B ----------------
    for n in 0..=MAX_N + 2 {
        for ty in ["Lut", "LutN"] {
            let reps = if thorough { 300 } else { 6 };
            for rep in 0..reps {
                for op in OPS {
                    if !valid_for(op, n) || (op == "npn_canon" && n >= 7 && rep > 0) || (op == "p_canon" && n >= 8 && rep > 1) {
                        continue;
                    }
                    let a = gen::gen(Fam::ALL[rep % Fam::ALL.len()], n, &mut rng);
                    let b = gen::any_fam(n, &mut rng).1;
                    let mut ev = diff_ev(op, n, &a, &b, &mut rng);
                    ev.ty = ty.to_string();
                    part_b(&mut ctx, &mut log, &ev);
                }
            }
        }
    }
    log.out.flush().expect("harness: flush log");
    ctx.bump("events-logged", log.next);
    let mut required: Vec<String> = Vec::new();
    for n in 0..=MAX_N {
        for ty in ["Lut", "LutN"] {
            for op in INDEX_OPS {
                let assignment = matches!(op, "value" | "get_bit" | "set_bit" | "unset_bit" | "set_value(true)");
                if assignment {
                    for c in ["2^n", "2^n+k", "MAX"] {
                        required.push(format!("A|{}|{}|n={}|{}", op, ty, n, c));
                    }
                } else {
                    for c in ["n", "n+1..n+5", "n+64..n+70", "MAX"] {
                        if c == "n" && n == 0 && op.starts_with("swap_adjacent") {
                            continue; // the second index i+1 is at least 1
                        }
                        required.push(format!("A|{}|{}|n={}|{}", op, ty, n, c));
                    }
                }
            }
            required.push(format!("A|from_blocks(wrong-length)|{}|n={}|len-0", ty, n));
            required.push(format!("A|from_blocks(wrong-length)|{}|n={}|len-long", ty, n));
            for op in OPS {
                if valid_for(op, n) {
                    required.push(format!("B|{}|{}|n={}", op, ty, n));
                }
            }
        }
        for op in ["and-form", "or-form", "xor-form", "bdd_complexity(mixed)"] {
            if !ctx.cells.keys().any(|k| k.starts_with(&format!("A|{}|Lut-mismatch|n={}|", op, n))) {
                required.push(format!("A|{}|Lut-mismatch|n={}|any", op, n));
            }
        }
    }
    cli.finish(&ctx, &required, RULE);
}
