//! C08 — ordering is the numeric order of the table; all_functions enumerates it fully
//! (DESIGN.md section 3, C08).

use std::cmp::Ordering;

use vmon::ctx::hex_of_blocks;
use vmon::gen::{self, Fam};
use vmon::obs::{observe, realize};
use vmon::*;

const RULE: &str = "events: cmp = all comparison operators of one pair of tables (same n; different n for Lut) \
against the model's (n, big-integer) order and against the order of the hex strings; sort = sort() of a vector \
of tables against the oracle's sort; iter-full = one complete all_functions run (n<=4); iter-step = the real \
iterator positioned on an arbitrary table (hook verif_iter_from) must yield that table, then its numeric \
successor, and end exactly after all-ones. non-trivial = the tables differ and neither is constant (cmp), \
start table not constant (iter-step); distinct = distinct (op, type, n, tables)";

fn cell(op: &str, class: &str, ty: &str, n: usize) -> String {
    format!("{}|{}|{}|n={}", op, class, ty, n)
}

fn ord_name(o: Ordering) -> &'static str {
    match o {
        Ordering::Less => "Less",
        Ordering::Equal => "Equal",
        Ordering::Greater => "Greater",
    }
}

fn exec_cmp_same<T: Tbl>(ctx: &mut Ctx, ev: &Ev) {
    let n = ev.n;
    let ma = Model::from_blocks(n, &ev.tabs[0]);
    let mb = Model::from_blocks(n, &ev.tabs[1]);
    let (a, b): (T, T) = match (realize(ctx, ev, n, &ev.tabs[0]), realize(ctx, ev, n, &ev.tabs[1])) {
        (Some(a), Some(b)) => (a, b),
        _ => return,
    };
    let want = ma.cmp_num(&mb);
    let class = match want {
        Ordering::Equal => "equal",
        _ => {
            // where is the most significant difference?
            let top = (0..ma.size()).rev().find(|m| ma.bits[*m] != mb.bits[*m]).unwrap();
            if ma.size() <= 64 {
                "in-word"
            } else if top / 64 == ma.size() / 64 - 1 {
                "top-word"
            } else if top / 64 == 0 {
                "bottom-word"
            } else {
                "middle-word"
            }
        }
    };
    ctx.event(&cell("cmp", class, T::ty(), n), ev, want != Ordering::Equal && ma.is_const().is_none() && mb.is_const().is_none());
    let r = guard(|| {
        (
            a.cmp(&b),
            a.partial_cmp(&b),
            a < b,
            a <= b,
            a > b,
            a >= b,
            a == b,
            a != b,
            std::cmp::max(a.clone(), b.clone()),
            std::cmp::min(a.clone(), b.clone()),
            b.cmp(&a),
            a.t_to_hex_string().cmp(&b.t_to_hex_string()),
        )
    });
    let (c, pc, lt, le, gt, ge, eq, ne, mx, mn, rc, hexc) = match r {
        Outcome::Returned(x) => x,
        Outcome::Panicked(m) => {
            ctx.violate("no-panic", ev, "cmp", format!("comparison panicked: {}", m));
            return;
        }
    };
    if ev.tabs[0] == ev.tabs[1] {
        // the same object on both sides, and clamp / max / min on one object
        let selfcmp = guard(|| (a.cmp(&a), a.partial_cmp(&a), a == a, a < a, a <= a, a.clone().clamp(a.clone(), a.clone()) == a));
        match selfcmp {
            Outcome::Returned((c0, p0, e0, l0, le0, cl)) => {
                ctx.check("reflexive", c0 == Ordering::Equal && p0 == Some(Ordering::Equal) && e0 && !l0 && le0 && cl, ev, "self", || {
                    format!("a value compared with itself: cmp {:?}, partial_cmp {:?}, == {}, < {}, <= {}", c0, p0, e0, l0, le0)
                });
            }
            Outcome::Panicked(m) => ctx.violate("no-panic", ev, "self", format!("self comparison panicked: {}", m)),
        }
    }
    let desc = || format!("a={} b={}", hex_of_blocks(&ev.tabs[0]), hex_of_blocks(&ev.tabs[1]));
    ctx.check("cmp-numeric", c == want, ev, class, || format!("cmp gave {} expected {} for {}", ord_name(c), ord_name(want), desc()));
    ctx.check("partial-cmp", pc == Some(want), ev, class, || format!("partial_cmp gave {:?} expected {} for {}", pc, ord_name(want), desc()));
    ctx.check("operators", lt == (want == Ordering::Less) && le == (want != Ordering::Greater) && gt == (want == Ordering::Greater) && ge == (want != Ordering::Less), ev, class, || {
        format!("<,<=,>,>= gave {},{},{},{} but the order is {} for {}", lt, le, gt, ge, ord_name(want), desc())
    });
    ctx.check("eq-agrees", eq == (want == Ordering::Equal) && ne != eq, ev, class, || format!("== gave {} but the order is {} for {}", eq, ord_name(want), desc()));
    ctx.check("antisymmetric", rc == want.reverse(), ev, class, || format!("b.cmp(a) gave {} but a.cmp(b) should be {} for {}", ord_name(rc), ord_name(want), desc()));
    let (wmax, wmin) = if want == Ordering::Greater { (&ma, &mb) } else { (&mb, &ma) };
    ctx.check("max-min", Model::from_blocks(n, mx.t_blocks()) == *wmax && Model::from_blocks(n, mn.t_blocks()) == *wmin, ev, class, || format!("max/min wrong for {}", desc()));
    ctx.check("hex-lexicographic", hexc == want, ev, class, || format!("order of the hex strings is {} but the numeric order is {} for {}", ord_name(hexc), ord_name(want), desc()));
}

fn exec_cmp_cross(ctx: &mut Ctx, ev: &Ev) {
    // dynamic Lut only: different numbers of variables
    let na = ev.n;
    let nb = ev.i(0);
    let a = volute::Lut::from_blocks(na, &ev.tabs[0]);
    let b = volute::Lut::from_blocks(nb, &ev.tabs[1]);
    let want = Model::from_blocks(na, &ev.tabs[0]).cmp_full(&Model::from_blocks(nb, &ev.tabs[1]));
    ctx.event(&cell("cmp-cross", "different-n", "Lut", na), ev, true);
    match guard(|| (a.cmp(&b), a.partial_cmp(&b), a < b, a > b, a == b, b.cmp(&a))) {
        Outcome::Returned((c, pc, lt, gt, eq, rc)) => {
            ctx.check("cmp-cross-size", c == want && pc == Some(want) && lt == (want == Ordering::Less) && gt == (want == Ordering::Greater) && !eq && rc == want.reverse(), ev, "cross", || {
                format!("Lut of {} vars vs {} vars: cmp {} (expected {}), <{} >{} =={}", na, nb, ord_name(c), ord_name(want), lt, gt, eq)
            });
        }
        Outcome::Panicked(m) => ctx.violate("no-panic", ev, "cross", format!("cross-size comparison panicked: {}", m)),
    }
}

fn exec_sort<T: Tbl>(ctx: &mut Ctx, ev: &Ev) {
    let n = ev.n;
    let models: Vec<Model> = ev.tabs.iter().map(|t| Model::from_blocks(n, t)).collect();
    let mut real: Vec<T> = Vec::new();
    for t in &ev.tabs {
        match realize::<T>(ctx, ev, n, t) {
            Some(x) => real.push(x),
            None => return,
        }
    }
    ctx.event(&cell("sort", "vector", T::ty(), n), ev, true);
    let mut want = models.clone();
    want.sort_by(|x, y| x.cmp_num(y));
    match guard(|| {
        let mut v = real.clone();
        v.sort();
        v
    }) {
        Outcome::Returned(v) => {
            let got: Vec<Model> = v.iter().map(|t| Model::from_blocks(n, t.t_blocks())).collect();
            ctx.check("sort-agrees", got == want, ev, "sort", || "sort() of a vector of tables is not the numeric order".into());
        }
        Outcome::Panicked(m) => ctx.violate("no-panic", ev, "sort", format!("sort panicked: {}", m)),
    }
}

fn exec_iter_full<T: Tbl>(ctx: &mut Ctx, ev: &Ev) {
    let n = ev.n;
    ctx.event(&cell("iter-full", "complete-run", T::ty(), n), ev, true);
    let total: u128 = 1u128 << (1u32 << n);
    let r = guard(|| {
        let mut it = T::t_all_functions(n);
        let mut k: u128 = 0;
        let mut bad: Option<(u128, Vec<u64>)> = None;
        let mut prev: Option<T> = None;
        let mut order_bad: Option<u128> = None;
        loop {
            match it.next() {
                Some(t) => {
                    if bad.is_none() {
                        let b = t.t_blocks();
                        if b.len() != 1 || b[0] as u128 != k || t.nv() != n {
                            bad = Some((k, b.to_vec()));
                        }
                    }
                    if let Some(p) = &prev {
                        if order_bad.is_none() && !(p < &t) {
                            order_bad = Some(k);
                        }
                    }
                    prev = Some(t);
                    k += 1;
                    if k > total + 2 {
                        break;
                    }
                }
                None => break,
            }
        }
        let again = it.next().is_none() && it.next().is_none();
        (k, bad, order_bad, again)
    });
    match r {
        Outcome::Returned((k, bad, order_bad, again)) => {
            ctx.checked("iter-item-is-k", k as u64);
            ctx.check("iter-item-is-k", bad.is_none(), ev, "item", || {
                let (k, b) = bad.clone().unwrap();
                format!("item {} of all_functions({}) is {}", k, n, hex_of_blocks(&b))
            });
            ctx.check("iter-count", k == total, ev, "count", || format!("all_functions({}) yielded {} items, expected {}", n, k, total));
            ctx.check("iter-increasing", order_bad.is_none(), ev, "order", || format!("items {} and {} are not strictly increasing", order_bad.unwrap() - 1, order_bad.unwrap()));
            ctx.check("iter-fused", again, ev, "fused", || "the iterator yields an item after having returned None".into());
        }
        Outcome::Panicked(m) => ctx.violate("no-panic", ev, "iter-full", format!("all_functions({}) panicked: {}", n, m)),
    }
}

/// number of low words that are all ones (how far the carry travels)
fn carry_words(blocks: &[u64], n: usize) -> usize {
    if n < 6 {
        return 0;
    }
    blocks.iter().take_while(|w| **w == !0u64).count()
}

fn exec_iter_step<T: Tbl>(ctx: &mut Ctx, ev: &Ev) {
    let n = ev.n;
    let ms = Model::from_blocks(n, &ev.tabs[0]);
    let start: T = match realize(ctx, ev, n, &ev.tabs[0]) {
        Some(s) => s,
        None => return,
    };
    let succ = ms.successor();
    let cw = carry_words(&ev.tabs[0], n);
    let class = if succ.is_none() { "wrap".to_string() } else { format!("carry-{}-words", cw) };
    // violation signatures use the coarse class so that one defect is one finding
    let key = if succ.is_none() { "wrap" } else if cw > 0 { "carry" } else { "no-carry" };
    ctx.event(&cell("iter-step", &class, T::ty(), n), ev, ms.is_const().is_none());
    let r = guard(|| {
        let mut it = T::t_iter_from(&start);
        let a = it.next();
        let b = it.next();
        let c = if b.is_none() { Some(it.next().is_none()) } else { None };
        (a, b, c)
    });
    match r {
        Outcome::Returned((a, b, c)) => {
            match &a {
                Some(a) => {
                    ctx.check("iter-yields-current", *a == start, ev, key, || "first item of the positioned iterator is not its position".into());
                }
                None => ctx.violate("iter-yields-current", ev, key, "positioned iterator yielded nothing".into()),
            }
            match (&succ, &b) {
                (Some(want), Some(got)) => {
                    if let Some(g) = observe(ctx, ev, "successor", got, n) {
                        ctx.check("iter-successor", g == *want, ev, key, || {
                            format!("successor of {} is {} expected {}", hex_of_blocks(&ev.tabs[0]), hex_of_blocks(got.t_blocks()), hex_of_blocks(&want.to_blocks()))
                        });
                    }
                    ctx.check("iter-increasing", start < *got, ev, key, || "successor does not compare greater".into());
                }
                (None, None) => {
                    ctx.check("iter-fused", c == Some(true), ev, key, || "iterator yields again after None".into());
                }
                (Some(_), None) => ctx.violate("iter-successor", ev, key, format!("iterator ended after {} which is not the last table", hex_of_blocks(&ev.tabs[0]))),
                (None, Some(g)) => ctx.violate("iter-terminates", ev, key, format!("iterator yielded {} after the all-ones table", hex_of_blocks(g.t_blocks()))),
            }
        }
        Outcome::Panicked(m) => ctx.violate("no-panic", ev, key, format!("successor step from {} panicked: {}", hex_of_blocks(&ev.tabs[0]), m)),
    }
}

/// One script of `Iterator` methods (nth, skip, step_by, take, min/max, count, last, fold, size_hint) on one
/// `all_functions` iterator, fresh or positioned, judged step by step against position arithmetic.
fn exec_iter_script<T: Tbl>(ctx: &mut Ctx, ev: &Ev) {
    use vmon::iterprobe as ip;
    let n = ev.n;
    let (fresh, script) = ip::ints_to_script(&ev.ints);
    let start_blocks = &ev.tabs[0];
    let start: Option<T> = if fresh {
        None
    } else {
        match realize(ctx, ev, n, start_blocks) {
            Some(s) => Some(s),
            None => return,
        }
    };
    let mut expect = ip::expect_at(ip::Pos::new(n, start_blocks), &script);
    expect.terminal_on_exhausted = n <= 4;
    let want = expect.obs.clone();
    let huge = script.iter().any(|(k, a)| matches!(*k, ip::NTH | ip::SKIP_NEXT | ip::STEP_BY3 | ip::TAKE_COUNT) && *a >= (1u64 << 31));
    let ends = want.iter().any(|o| matches!(o, ip::Obs::Item(None)));
    let class = format!("{}{}{}", if fresh { "fresh" } else { "positioned" }, if huge { "+huge-arg" } else { "" }, if ends { "+reaches-end" } else { "" });
    ctx.event(&cell("iter-script", &class, T::ty(), n), ev, true);
    for k in ip::script_kinds(&script) {
        ctx.cell_only(&format!("iter-method|{}|{}", k, T::ty()));
    }
    // scripts that rely on the iterator ending are only run on an iterator that does end (bounded next() loop)
    if let Some(rem) = ip::Pos::new(n, start_blocks).remaining() {
        if rem <= 4 * ip::MAX_DEFAULT_COST {
            match guard(|| T::t_iter_ends_within(n, start.as_ref(), rem)) {
                Outcome::Returned(true) => ctx.checked("iter-terminates", 1),
                Outcome::Returned(false) => {
                    ctx.violate("iter-terminates", ev, "script-preflight", format!(
                        "the iterator {} yields more than the {} tables that are left (script not run)",
                        if fresh { "all_functions".to_string() } else { format!("positioned on {}", hex_of_blocks(start_blocks)) }, rem));
                    return;
                }
                Outcome::Panicked(m) => {
                    ctx.violate("no-panic", ev, "iter-script", format!("stepping the iterator panicked: {}", m));
                    return;
                }
            }
        }
    }
    if std::env::var_os("VMON_TRACE").is_some() {
        // debugging aid: which script is about to run (the last line printed by a thread that does not return)
        eprintln!("TRACE {:?} {} n={} fresh={} start={} script=[{}]", std::thread::current().id(), T::ty(), n, fresh, hex_of_blocks(start_blocks), ip::describe_script(&script));
    }
    let r = guard(|| T::t_iter_script(n, start.as_ref(), &script, Some(&expect)));
    match r {
        Outcome::Returned(got) => {
            ctx.checked("iter-methods-agree-with-sequence", got.len() as u64);
            if let Some((i, msg)) = ip::first_disagreement(&got, &want) {
                let kind = script.get(i).map(|s| ip::kind_name(s.0)).unwrap_or("?");
                ctx.violate("iter-methods-agree-with-sequence", ev, kind, format!(
                    "step {} ({}({})) of script {:?} from {} {}: {}", i, kind, script.get(i).map(|s| s.1).unwrap_or(0),
                    script.iter().map(|(k, a)| format!("{}({})", ip::kind_name(*k), a)).collect::<Vec<_>>(),
                    if fresh { "a fresh iterator".to_string() } else { format!("position {}", hex_of_blocks(start_blocks)) },
                    T::ty(), msg));
            }
        }
        Outcome::Panicked(m) => ctx.violate("no-panic", ev, "iter-script", format!("iterator script {:?} panicked: {}", script, m)),
    }
}

fn exec_dispatch(ctx: &mut Ctx, ev: &Ev) {
    match ev.op.as_str() {
        "iter-script" => with_ty!(ev.is_static(), ev.n, T => exec_iter_script::<T>(ctx, ev)),
        "cmp" => with_ty!(ev.is_static(), ev.n, T => exec_cmp_same::<T>(ctx, ev)),
        "cmp-cross" => exec_cmp_cross(ctx, ev),
        "sort" => with_ty!(ev.is_static(), ev.n, T => exec_sort::<T>(ctx, ev)),
        "iter-full" => with_ty!(ev.is_static(), ev.n, T => exec_iter_full::<T>(ctx, ev)),
        "iter-step" => with_ty!(ev.is_static(), ev.n, T => exec_iter_step::<T>(ctx, ev)),
        other => panic!("harness: unknown op {}", other),
    }
}

fn both(ctx: &mut Ctx, n: usize, mk: impl Fn(&str) -> Ev) {
    exec_dispatch(ctx, &mk("Lut"));
    if n <= tbl::MAX_STATIC {
        exec_dispatch(ctx, &mk("LutN"));
    }
}

fn flip_bit(b: &[u64], m: usize) -> Vec<u64> {
    let mut v = b.to_vec();
    v[m / 64] ^= 1u64 << (m % 64);
    v
}

const MAX_N: usize = 14;

fn main() {
    silence_panics();
    let cli = Cli::parse();
    let mut ctx = cli.ctx("C08");
    if let Some(ev) = cli.replay_event() {
        exec_dispatch(&mut ctx, &ev);
        std::process::exit(vmon::ctx::report_replay(&ctx));
    }
    let thorough = ctx.thorough();
    let seed = cli.seed;
    let mut shards: Vec<(&str, usize, usize, usize)> = Vec::new();
    for n in 0..=MAX_N {
        let chunks = if n == 3 { 8 } else { 1 };
        for c in 0..chunks {
            shards.push(("cmp", n, c, chunks));
        }
        shards.push(("step", n, 0, 1));
        shards.push(("script", n, 0, 1));
    }
    for n in 0..=4 {
        shards.push(("full", n, 0, 1));
        shards.push(("full", n, 1, 1));
    }
    shards.push(("cross", 0, 0, 1));
    run_sharded(&mut ctx, cli.threads, shards.len(), |ctx, k| {
        let (kind, n, c, chunks) = shards[k];
        let mut rng = Rng::new(seed ^ ((n as u64) << 20) ^ ((c as u64) << 4) ^ kind.len() as u64);
        let size = 1usize << n;
        match kind {
            "cmp" => {
                if n <= 3 {
                    let count: u64 = 1u64 << (1u64 << n);
                    for x in 0..count {
                        if (x as usize) % chunks != c {
                            continue;
                        }
                        for y in 0..count {
                            both(ctx, n, |ty| Ev::new("cmp", ty, n).tab(&[x]).tab(&[y]));
                        }
                    }
                    ctx.exhaustive.insert(format!("all pairs for comparison, n={}", n), true);
                } else {
                    let reps = if thorough { 300 } else { 4 };
                    for _ in 0..reps {
                        for fam in Fam::ALL {
                            let a = gen::gen(fam, n, &mut rng);
                            // equal; one-bit differences at the top/bottom bit, top/bottom word, random
                            both(ctx, n, |ty| Ev::new("cmp", ty, n).tab(&a).tab(&a));
                            let w = gen::words(n);
                            let mut spots = vec![0, size - 1, rng.below(size), rng.below(size)];
                            if w > 1 {
                                spots.push(rng.below(64));
                                spots.push(size - 64 + rng.below(64));
                                spots.push(64 + rng.below(size - 128 + 1).min(size - 65));
                            }
                            for m in spots {
                                let b = flip_bit(&a, m);
                                both(ctx, n, |ty| Ev::new("cmp", ty, n).tab(&a).tab(&b));
                                // differences in two places: the more significant one must decide
                                let b2 = flip_bit(&b, rng.below(size));
                                both(ctx, n, |ty| Ev::new("cmp", ty, n).tab(&a).tab(&b2));
                            }
                            let (_, b) = gen::any_fam(n, &mut rng);
                            both(ctx, n, |ty| Ev::new("cmp", ty, n).tab(&a).tab(&b));
                        }
                    }
                }
                // sort of random vectors
                let reps = if thorough { 600 } else { 8 };
                for _ in 0..reps {
                    let len = rng.range(2, 24);
                    let base = gen::random_blocks(n, &mut rng);
                    let tabs: Vec<Vec<u64>> = (0..len)
                        .map(|i| {
                            if i % 3 == 0 {
                                flip_bit(&base, rng.below(size))
                            } else if i % 3 == 1 {
                                gen::any_fam(n, &mut rng).1
                            } else {
                                base.clone()
                            }
                        })
                        .collect();
                    both(ctx, n, |ty| {
                        let mut ev = Ev::new("sort", ty, n);
                        for t in &tabs {
                            ev = ev.tab(t);
                        }
                        ev
                    });
                }
            }
            "full" => {
                let ty = if c == 0 { "Lut" } else { "LutN" };
                exec_dispatch(ctx, &Ev::new("iter-full", ty, n));
                ctx.exhaustive.insert(format!("complete all_functions run, n={} {}", n, ty), true);
            }
            "script" => {
                let reps = if thorough { 6000 } else { 260 };
                for _ in 0..reps {
                    let (fresh, start) = vmon::iterprobe::gen_start(n, &mut rng);
                    let script = vmon::iterprobe::gen_script(n, &start, &mut rng);
                    let ints = vmon::iterprobe::script_to_ints(fresh, &script);
                    both(ctx, n, |ty| {
                        let mut e = Ev::new("iter-script", ty, n).tab(&start);
                        e.ints = ints.clone();
                        e
                    });
                }
            }
            "step" => {
                let w = gen::words(n);
                // zero, all ones, low j words all ones for every j (random above), low bits all ones in-word
                both(ctx, n, |ty| Ev::new("iter-step", ty, n).tab(&Model::constant(n, false).to_blocks()));
                both(ctx, n, |ty| Ev::new("iter-step", ty, n).tab(&Model::constant(n, true).to_blocks()));
                let reps = if thorough { 300 } else { 4 };
                for _ in 0..reps {
                    for j in 0..=w {
                        if j == w && n >= 6 {
                            continue; // all ones: done above
                        }
                        let mut t = gen::random_blocks(n, &mut rng);
                        if n >= 6 {
                            for x in t.iter_mut().take(j) {
                                *x = !0u64;
                            }
                            if j < w && t[j] == !0u64 {
                                t[j] = rng.next_u64() >> 1;
                            }
                        }
                        both(ctx, n, |ty| Ev::new("iter-step", ty, n).tab(&t));
                        // word j just below all ones / lowest bits ones
                        let mut t2 = t.clone();
                        let kbits = rng.range(1, std::cmp::min(size, 64));
                        let wi = std::cmp::min(j, w - 1);
                        for b in 0..kbits {
                            if n >= 6 || b < size {
                                t2[wi] |= 1u64 << b;
                            }
                        }
                        if Model::from_blocks(n, &t2).successor().is_some() || n < 6 {
                            both(ctx, n, |ty| Ev::new("iter-step", ty, n).tab(&t2));
                        }
                    }
                    for fam in [Fam::Random, Fam::LowOnes, Fam::HighOnes, Fam::Dense, Fam::Maxterm, Fam::NearConst] {
                        let t = gen::gen(fam, n, &mut rng);
                        both(ctx, n, |ty| Ev::new("iter-step", ty, n).tab(&t));
                    }
                }
                if n <= 3 {
                    let count: u64 = 1u64 << (1u64 << n);
                    for x in 0..count {
                        both(ctx, n, |ty| Ev::new("iter-step", ty, n).tab(&[x]));
                    }
                }
            }
            _ => {
                // Lut of different sizes: the number of variables decides first
                let reps = if thorough { 40 } else { 4 };
                for _ in 0..reps {
                    for na in 0..=MAX_N {
                        for nb in 0..=MAX_N {
                            if na == nb {
                                continue;
                            }
                            let (_, a) = gen::any_fam(na, &mut rng);
                            let (_, b) = gen::any_fam(nb, &mut rng);
                            exec_dispatch(ctx, &Ev::new("cmp-cross", "Lut", na).int(nb).tab(&a).tab(&b));
                            // smaller n with all ones vs larger n zero: the larger n must still win
                            let a1 = Model::constant(na, true).to_blocks();
                            let b0 = Model::constant(nb, false).to_blocks();
                            exec_dispatch(ctx, &Ev::new("cmp-cross", "Lut", na).int(nb).tab(&a1).tab(&b0));
                        }
                    }
                }
            }
        }
    });
    // hidden-state monitor: sampled events of all shards again, mixed, on one thread (ctx::run_mix)
    run_mix(&mut ctx, seed, |c, e| exec_dispatch(c, e));
    // and concurrently: the same sample on several threads at once (shared state inside the library)
    run_mix_concurrent(&mut ctx, seed, cli.threads, |c, e| exec_dispatch(c, e));
    let mut required = Vec::new();
    for n in 0..=MAX_N {
        for ty in ["Lut", "LutN"] {
            if ty == "LutN" && n > tbl::MAX_STATIC {
                continue;
            }
            required.push(cell("cmp", "equal", ty, n));
            if n >= 1 && n < 6 {
                required.push(cell("cmp", "in-word", ty, n));
            }
            if n >= 7 {
                required.push(cell("cmp", "top-word", ty, n));
                required.push(cell("cmp", "bottom-word", ty, n));
            }
            required.push(cell("sort", "vector", ty, n));
            required.push(cell("iter-step", "wrap", ty, n));
            if n >= 6 {
                for j in 0..gen::words(n) {
                    // carry across 0..W-1 full words
                    if j <= 8 || j == gen::words(n) - 1 {
                        required.push(cell("iter-step", &format!("carry-{}-words", j), ty, n));
                    }
                }
            } else {
                required.push(cell("iter-step", "carry-0-words", ty, n));
            }
            if n <= 4 {
                required.push(cell("iter-full", "complete-run", ty, n));
            }
            required.push(cell("iter-script", "positioned+huge-arg+reaches-end", ty, n));
            required.push(cell("iter-script", "fresh", ty, n));
        }
        required.push(cell("cmp-cross", "different-n", "Lut", n));
    }
    for ty in ["Lut", "LutN"] {
        for k in ["next", "nth", "size_hint", "skip.next", "step_by.take3", "take.count", "take.min/max", "count", "last", "fold", "min", "max"] {
            required.push(format!("iter-method|{}|{}", k, ty));
        }
    }
    cli.finish(&ctx, &required, RULE);
}
