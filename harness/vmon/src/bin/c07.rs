//! C07 — bdd_complexity equals the node count of the shared complement-edge ROBDD
//! (DESIGN.md section 3, C07).

use vmon::ctx::hex_of_blocks;
use vmon::gen::{self, Fam};
use vmon::model::{bdd_count, Bdd};
use vmon::obs::realize;
use vmon::*;

const RULE: &str = "event = one bdd_complexity call on a list of 0..4 tables, compared with a textbook shared \
complement-edge ROBDD (unique table, variable n-1 on top, literal nodes not counted) built from the model; \
each event also runs the metamorphic variants (permuted list, duplicated element, complemented element). \
Lists: all single functions n<=4, all pairs n<=3, random, Shannon compositions over a shared pool of \
sub-functions at every level, arithmetic/threshold/parity functions, literals at every level. non-trivial = \
the oracle count is > 0; distinct = distinct (type, n, list of tables)";

fn cell(len: usize, fam: &str, ty: &str, n: usize) -> String {
    format!("len={}|{}|{}|n={}", len, fam, ty, n)
}

fn exec<T: Tbl>(ctx: &mut Ctx, ev: &Ev) {
    let n = ev.n;
    // a caller error right before the event, every 16th time (obs::poison): the event is judged as usual
    {
        let salt = (ev.tabs.first().and_then(|t| t.first()).copied().unwrap_or(7) ^ ((ev.op.len() as u64) << 17)).wrapping_mul(0x9e37_79b9_7f4a_7c15) >> 7;
        if salt % 16 == 0 && !ev.tabs.is_empty() {
            vmon::obs::poison::<T>(ev.n, &ev.tabs[0], salt >> 4);
        }
    }
    let fam = ev.strs.first().cloned().unwrap_or_else(|| "replay".into());
    let models: Vec<Model> = ev.tabs.iter().map(|t| Model::from_blocks(n, t)).collect();
    let mut real: Vec<T> = Vec::new();
    for t in &ev.tabs {
        match realize::<T>(ctx, ev, n, t) {
            Some(x) => real.push(x),
            None => return,
        }
    }
    let want = bdd_count(&models);
    ctx.event(&cell(models.len(), &fam, T::ty(), n), ev, want > 0);
    // sharing between listed functions observed?
    if models.len() >= 2 {
        let sum: usize = models.iter().map(|m| bdd_count(std::slice::from_ref(m))).sum();
        ctx.bump("multi-function-events", 1);
        if want < sum {
            ctx.bump("multi-function-events-with-cross-sharing", 1);
        }
    }
    if models.len() == 1 {
        // sharing inside one function: fewer nodes than a tree would need
        let mut b = Bdd::new();
        b.add(&models[0]);
        if b.num_nodes() > 0 {
            ctx.bump("single-function-events-with-nodes", 1);
        }
    }
    let desc = || ev.tabs.iter().map(|t| hex_of_blocks(t)).collect::<Vec<_>>().join(" , ");
    match guard(|| T::t_bdd_complexity(&real)) {
        Outcome::Returned(got) => {
            ctx.check("node-count", got == want, ev, &format!("len={}", models.len()), || {
                format!("bdd_complexity gave {} expected {} for [{}]", got, want, desc())
            });
            // metamorphic variants on the real code (not in the back-to-back sequences, where the next
            // library call has to be the next event)
            if fam == "restacked-words" {
                return;
            }
            if real.len() >= 2 {
                let mut rev = real.clone();
                rev.reverse();
                rev.rotate_left(1 % real.len());
                if let Outcome::Returned(g2) = guard(|| T::t_bdd_complexity(&rev)) {
                    ctx.check("order-invariant", g2 == got, ev, "order", || format!("permuting the list changed the count {} -> {} for [{}]", got, g2, desc()));
                }
            }
            if !real.is_empty() {
                let mut dup = real.clone();
                dup.push(real[ev.tabs.len() / 2].clone());
                if let Outcome::Returned(g2) = guard(|| T::t_bdd_complexity(&dup)) {
                    ctx.check("duplicate-invariant", g2 == got, ev, "dup", || format!("duplicating an element changed the count {} -> {} for [{}]", got, g2, desc()));
                }
                let mut neg = real.clone();
                let k = real.len() - 1;
                let (r, _) = T::t_not_form(0, &real[k]);
                neg[k] = r;
                if let Outcome::Returned(g2) = guard(|| T::t_bdd_complexity(&neg)) {
                    ctx.check("complement-invariant", g2 == got, ev, "neg", || format!("complementing an element changed the count {} -> {} for [{}]", got, g2, desc()));
                }
            } else {
                ctx.check("empty-is-zero", got == 0, ev, "empty", || format!("empty list gave {}", got));
            }
        }
        Outcome::Panicked(m) => ctx.violate("no-panic", ev, "panic", format!("bdd_complexity panicked: {} for [{}]", m, desc())),
    }
}

fn exec_dispatch(ctx: &mut Ctx, ev: &Ev) {
    with_ty!(ev.is_static(), ev.n, T => exec::<T>(ctx, ev))
}

/// Node count against the oracle only (volume sweeps); a mismatch is re-run through the full executor.
fn exec_light(ctx: &mut Ctx, ev: &Ev) {
    let n = ev.n;
    let models: Vec<Model> = ev.tabs.iter().map(|t| Model::from_blocks(n, t)).collect();
    let want = bdd_count(&models);
    let got = with_ty!(ev.is_static(), n, T => {
        let real: Vec<T> = ev.tabs.iter().map(|t| T::t_from_blocks(n, t)).collect();
        guard(|| T::t_bdd_complexity(&real))
    });
    let ok = matches!(got, Outcome::Returned(g) if g == want);
    ctx.event_digest(&format!("len={}|edge-perturbation-sweep|{}|n={}", models.len(), ev.ty, n), ev.digest(), want > 0, || ev.clone());
    ctx.checked("node-count", 1);
    if !ok {
        exec_dispatch(ctx, ev);
    }
}

fn both(ctx: &mut Ctx, n: usize, fam: &str, tabs: &[Vec<u64>]) {
    for ty in ["Lut", "LutN"] {
        if ty == "LutN" && n > tbl::MAX_STATIC {
            continue;
        }
        let mut ev = Ev::new("bdd", ty, n).st(fam);
        for t in tabs {
            ev = ev.tab(t);
        }
        exec_dispatch(ctx, &ev);
    }
}

/// structured functions: adder bits, multiplexer, comparator, thresholds, parity of a subset
fn structured(n: usize, rng: &mut Rng) -> Model {
    let kind = rng.below(6);
    let half = std::cmp::max(1, n / 2);
    Model::from_fn(n, |m| {
        let lo = m & ((1usize << half) - 1);
        let hi = m >> half;
        match kind {
            0 => ((lo + hi) >> (half / 2)) & 1 == 1,
            1 => {
                let sel = hi & 3;
                (lo >> (sel % half)) & 1 == 1
            }
            2 => lo < hi,
            3 => (m as u64).count_ones() as usize >= (n + 1) / 2,
            4 => ((m & 0b1011_0110_1101) as u64).count_ones() % 2 == 1,
            _ => lo == hi,
        }
    })
}

const MAX_N: usize = 12;

fn main() {
    silence_panics();
    let cli = Cli::parse();
    let mut ctx = cli.ctx("C07");
    if let Some(ev) = cli.replay_event() {
        exec_dispatch(&mut ctx, &ev);
        std::process::exit(vmon::ctx::report_replay(&ctx));
    }
    let thorough = ctx.thorough();
    let seed = cli.seed;
    let mut shards: Vec<(usize, usize, usize)> = Vec::new();
    for n in 0..=MAX_N {
        let chunks = if n == 4 { 8 } else if n == 3 { 4 } else if n >= 9 { 8 } else { 2 };
        for c in 0..chunks {
            shards.push((n, c, chunks));
        }
    }
    run_sharded(&mut ctx, cli.threads, shards.len(), |ctx, k| {
        let (n, c, chunks) = shards[k];
        let mut rng = Rng::new(seed ^ ((n as u64) << 36) ^ (c as u64).wrapping_mul(1315423911));
        if c == 0 {
            both(ctx, n, "empty", &[]);
        }
        if n <= 4 {
            let count: u64 = 1u64 << (1u64 << n);
            for x in 0..count {
                if (x as usize) % chunks != c {
                    continue;
                }
                both(ctx, n, "all-singles", &[vec![x]]);
                if n <= 3 {
                    for y in 0..count {
                        both(ctx, n, "all-pairs", &[vec![x], vec![y]]);
                    }
                }
            }
            ctx.exhaustive.insert(format!("all single functions, n={}", n), true);
            if n <= 3 {
                ctx.exhaustive.insert(format!("all pairs of functions, n={}", n), true);
            }
        }
        // systematic small perturbations at word edges: the list [f ^ e_a, f ^ e_b ^ e_c] for every single a and
        // every pair {b, c} of edge positions (bits 0, 1, 30..33, 62, 63 of every 64-bit word), n = 7 (8 in
        // thorough): two functions that differ in at most three outputs share almost all of their sub-tables
        if (n == 7 || (n == 8 && thorough)) && c == 0 {
            let edges: Vec<usize> = (0..gen::words(n)).flat_map(|w| [0usize, 1, 30, 31, 32, 33, 62, 63].into_iter().map(move |b| w * 64 + b)).collect();
            for base_kind in 0..2 {
                let base = if base_kind == 0 { vec![0u64; gen::words(n)] } else { gen::random_blocks(n, &mut rng) };
                for a in &edges {
                    for (bi, b) in edges.iter().enumerate() {
                        for c2 in edges.iter().skip(bi + 1) {
                            let mut f1 = base.clone();
                            f1[a / 64] ^= 1u64 << (a % 64);
                            let mut f2 = base.clone();
                            f2[b / 64] ^= 1u64 << (b % 64);
                            f2[c2 / 64] ^= 1u64 << (c2 % 64);
                            for ty in ["Lut", "LutN"] {
                                let ev = Ev::new("bdd", ty, n).st("edge-perturbation-sweep").tab(&f1).tab(&f2);
                                exec_light(ctx, &ev);
                            }
                        }
                    }
                }
            }
            ctx.exhaustive.insert(format!("all [f^e_a, f^e_b^e_c] over word-edge positions, n={}", n), true);
        }
        let total = (if thorough { 640 } else { 24 }) * if n >= 11 { 1 } else { 2 };
        let reps = std::cmp::max(1, total / chunks);
        for _rep in 0..reps {
            // random lists
            for len in 1..=4 {
                let tabs: Vec<Vec<u64>> = (0..len).map(|_| gen::random_blocks(n, &mut rng)).collect();
                both(ctx, n, "random", &tabs);
                let tabs: Vec<Vec<u64>> = (0..len).map(|_| gen::any_fam(n, &mut rng).1).collect();
                both(ctx, n, "families", &tabs);
                let tabs: Vec<Vec<u64>> = (0..len).map(|_| structured(n, &mut rng).to_blocks()).collect();
                both(ctx, n, "structured", &tabs);
            }
            // Shannon compositions over a pool shared by all listed functions, at every level
            for level in 0..n {
                let pool = gen::make_pool(level, rng.range(2, 6), &mut rng);
                let len = rng.range(1, 4);
                let tabs: Vec<Vec<u64>> = (0..len).map(|_| gen::shannon_blocks(n, &mut rng, Some((&pool, level)))).collect();
                both(ctx, n, &format!("shannon-level-{}", level), &tabs);
            }
            // near-identical functions: one base with 1..3 output bits toggled, the toggled positions chosen at
            // the edges of 64-bit words (bit 0, 63, 31, 32, 30, 33 of random words) or at random
            {
                let base = gen::any_fam(n, &mut rng).1;
                let size = 1usize << n;
                let len = rng.range(2, 4);
                let tabs: Vec<Vec<u64>> = (0..len)
                    .map(|_| {
                        let mut t = base.clone();
                        for _ in 0..rng.range(1, 3) {
                            let word = rng.below(gen::words(n));
                            let bit = *rng.pick(&[0usize, 63, 31, 32, 30, 33, 62, 1]);
                            let pos = if rng.chance(1, 4) { rng.below(size) } else { (word * 64 + bit) % size };
                            t[pos / 64] ^= 1u64 << (pos % 64);
                        }
                        t
                    })
                    .collect();
                both(ctx, n, "boundary-bit-neighbours", &tabs);
            }
            // the same words read at neighbouring sizes, back to back on one thread: a list of k functions of n
            // variables, the 2k halves as functions of n-1 variables, the k/2 concatenations as functions of n+1
            // variables (results that depend on what was computed just before would show here)
            if n >= 7 {
                let klen = *rng.pick(&[1usize, 2, 2, 4]);
                let tabs: Vec<Vec<u64>> = (0..klen).map(|_| if rng.bool() { gen::any_fam(n, &mut rng).1 } else { gen::shannon_blocks(n, &mut rng, None) }).collect();
                let halves: Vec<Vec<u64>> = tabs.iter().flat_map(|t| {
                    let h = t.len() / 2;
                    vec![t[..h].to_vec(), t[h..].to_vec()]
                }).collect();
                let doubles: Vec<Vec<u64>> = tabs.chunks(2).filter(|c| c.len() == 2).map(|c| [c[0].clone(), c[1].clone()].concat()).collect();
                let mut seq: Vec<(usize, &Vec<Vec<u64>>)> = vec![(n, &tabs), (n - 1, &halves), (n, &tabs)];
                if !doubles.is_empty() && n + 1 <= MAX_N {
                    seq.push((n + 1, &doubles));
                    seq.push((n, &tabs));
                }
                if rng.bool() {
                    seq.reverse();
                }
                // one type at a time so that the calls really follow each other
                for ty in ["Lut", "LutN"] {
                    for (nn, l) in &seq {
                        if ty == "LutN" && *nn > tbl::MAX_STATIC {
                            continue;
                        }
                        let mut ev = Ev::new("bdd", ty, *nn).st("restacked-words");
                        for t in l.iter() {
                            ev = ev.tab(t);
                        }
                        exec_dispatch(ctx, &ev);
                    }
                }
            }
            // literals and complemented literals of every variable, alone and next to other functions
            for i in 0..n {
                let lit = Model::var(n, i);
                both(ctx, n, "literal", &[lit.to_blocks()]);
                both(ctx, n, "literal", &[lit.not().to_blocks(), gen::gen(Fam::Shannon, n, &mut rng), lit.to_blocks()]);
                // a literal embedded under a higher variable: x_j ? x_i : !x_i  etc.
                if n >= 2 {
                    let j = (i + 1 + rng.below(n - 1)) % n;
                    let emb = Model::from_cofactors(&lit, &if rng.bool() { lit.not() } else { Model::constant(n, rng.bool()) }, j);
                    both(ctx, n, "embedded-literal", &[emb.to_blocks()]);
                }
            }
        }
    });
    // hidden-state monitor: sampled events of all shards again, mixed, on one thread (ctx::run_mix)
    run_mix(&mut ctx, seed, |c, e| exec_dispatch(c, e));
    // and concurrently: the same sample on several threads at once (shared state inside the library)
    run_mix_concurrent(&mut ctx, seed, cli.threads, |c, e| exec_dispatch(c, e));
    let mut required = Vec::new();
    for n in 0..=MAX_N {
        for ty in ["Lut", "LutN"] {
            required.push(cell(0, "empty", ty, n));
            for len in 1..=4 {
                required.push(cell(len, "random", ty, n));
                required.push(cell(len, "structured", ty, n));
            }
            for level in 0..n {
                // some list length at this level
                let any = (1..=4).any(|len| ctx.cells.contains_key(&cell(len, &format!("shannon-level-{}", level), ty, n)));
                if !any {
                    required.push(cell(1, &format!("shannon-level-{}", level), ty, n));
                }
            }
        }
    }
    // sharing must actually have been observed in at least 10% of the multi-function events
    let multi = ctx.counters.get("multi-function-events").copied().unwrap_or(0);
    let shared = ctx.counters.get("multi-function-events-with-cross-sharing").copied().unwrap_or(0);
    if shared * 10 < multi {
        required.push("cross-function sharing observed in >= 10% of multi-function events".into());
    }
    cli.finish(&ctx, &required, RULE);
}
