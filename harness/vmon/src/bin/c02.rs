//! C02 — equality, hashing and ordering are extensional; the block view is always well formed
//! (DESIGN.md section 3, C02).

use std::collections::hash_map::DefaultHasher;
use std::collections::HashMap;
use std::hash::{Hash, Hasher};

use volute::sop::{Esop, Sop};
use volute::{Lut, Lut3, Lut4, Lut5, Lut6};

use vmon::obs::well_formed;
use vmon::tbl::BinOp;
use vmon::*;

const RULE: &str = "event = one history: a pool of up to 8 live tables of one size, 40..80 steps, each step one public \
API operation with in-range arguments (constructors with arbitrary usize arguments, random(), from_blocks on \
well-formed blocks, from_hex_string on arbitrary strings, Lut<->LutN, integer conversions, every operator form, \
flip/swap/swap_adjacent, cofactors/from_cofactors, set/unset/set_value, canonization outputs, iterator items, \
Sop/Esop round trips, and re-derivations of a pool member by another route). After every step each produced \
value is checked for the representation invariant (blocks().len() == max(1,2^n/64), no bit at a position >= 2^n) \
and compared with every pool member and every earlier value of the history: ==, equal hashes and cmp == Equal \
must hold iff the two agree on every assignment (read through value(m)). non-trivial = history produced at \
least 4 distinct non-constant functions; distinct = distinct (type, n, history seed)";

fn hash_of<T: Hash>(t: &T) -> u64 {
    let mut h = DefaultHasher::new();
    t.hash(&mut h);
    h.finish()
}

struct Hist<'a, T: Tbl> {
    ctx: &'a mut Ctx,
    ev: &'a Ev,
    n: usize,
    pool: Vec<T>,
    /// function (read through value) -> values seen with that function
    dict: HashMap<Vec<bool>, Vec<T>>,
    rng: Rng,
    step: usize,
    nonconst: usize,
    routes_tick: u64,
}

const OPS: [&str; 69] = [
    "zero", "one", "default", "nth_var", "parity", "majority", "threshold", "equals", "symmetric", "random",
    "from_blocks", "from_hex(print)", "from_hex(arbitrary)", "dyn-roundtrip", "int-roundtrip",
    "not-form", "and-form", "or-form", "xor-form",
    "flip", "flip_inplace", "swap", "swap_inplace", "swap_adjacent", "swap_adjacent_inplace",
    "cofactors", "from_cofactors", "set_bit", "unset_bit", "set_value", "not_inplace",
    "and_inplace", "or_inplace", "xor_inplace",
    "p_canon", "n_canon", "npn_canon", "iter-item", "iter-successor", "sop-roundtrip", "esop-roundtrip",
    "route:print-parse", "route:from_blocks(blocks)", "route:bit-by-bit", "route:double-flip", "route:double-swap",
    "route:x^y^y", "route:de-morgan", "route:shannon", "route:clone", "route:double-not", "route:and-self",
    "route:or-zero", "route:xor-zero", "route:and-one", "route:swap-as-adjacent", "route:flip-twice-inplace",
    "route:cofactor-of-independent", "route:from_hex(upper)", "route:static-dyn-static", "route:min-max", "route:sort",
    "tryfrom-other-size", "route:clone_from", "route:vec-clone_from", "clone_from-other-size",
    "from-sop-cubes", "from-esop-cubes", "from-soes-terms",
];

impl<'a, T: Tbl> Hist<'a, T> {
    fn func(&mut self, t: &T, opname: &str) -> Option<Vec<bool>> {
        // M1: representation invariant
        let n = self.n;
        let blocks = t.t_blocks().to_vec();
        let wf = well_formed(n, &blocks);
        let nv = t.nv();
        let step = self.step;
        self.ctx.check("repr", wf.is_ok() && nv == n, self.ev, &format!("op={}", opname), || {
            format!("step {} ({}): value with num_vars {} has a malformed block view: {:?} blocks={}", step, opname, nv, wf, vmon::ctx::hex_of_blocks(&blocks))
        });
        if nv != n {
            return None;
        }
        match guard(|| (0..1usize << n).map(|m| t.t_value(m)).collect::<Vec<bool>>()) {
            Outcome::Returned(v) => Some(v),
            Outcome::Panicked(msg) => {
                self.ctx.violate("value-view", self.ev, &format!("op={}", opname), format!("step {} ({}): value(m) panicked on an in-range assignment: {}", step, opname, msg));
                None
            }
        }
    }

    fn compare(&mut self, a: &T, fa: &[bool], b: &T, fb: &[bool], opname: &str) {
        let same = fa == fb;
        let eq = a == b;
        let ne = a != b;
        let heq = hash_of(a) == hash_of(b);
        let oeq = a.cmp(b) == std::cmp::Ordering::Equal && b.cmp(a) == std::cmp::Ordering::Equal;
        let step = self.step;
        let key = format!("op={}:{}", opname, if same { "same-function" } else { "different-function" });
        self.ctx.bump(if same { "comparisons-equal-function" } else { "comparisons-different-function" }, 1);
        self.ctx.check("extensional-eq", eq == same && ne != eq, self.ev, &key, || {
            format!("step {} ({}): a == b is {} but the functions are {}: a={} b={}", step, opname, eq, if same { "equal" } else { "different" },
                vmon::ctx::hex_of_blocks(a.t_blocks()), vmon::ctx::hex_of_blocks(b.t_blocks()))
        });
        self.ctx.check("extensional-ord", oeq == same, self.ev, &key, || {
            format!("step {} ({}): cmp == Equal is {} but the functions are {}: a={} b={}", step, opname, oeq, if same { "equal" } else { "different" },
                vmon::ctx::hex_of_blocks(a.t_blocks()), vmon::ctx::hex_of_blocks(b.t_blocks()))
        });
        // every 16th comparison also through the other std routes: <..>=, partial_cmp, HashSet, BTreeSet, sort,
        // min/max, clone, clone_from (obs::eq_ord_hash_routes)
        self.routes_tick = self.routes_tick.wrapping_add(1);
        if self.routes_tick % 16 == 0 {
            match guard(|| vmon::obs::eq_ord_hash_routes(a, b, same)) {
                Outcome::Returned(Ok(k)) => self.ctx.checked("extensional-routes", k as u64),
                Outcome::Returned(Err(route)) => self.ctx.violate("extensional-routes", self.ev, &format!("{}:{}", route, if same { "same-function" } else { "different-function" }), format!(
                    "step {} ({}): route `{}` disagrees with the functions being {}: a={} b={}", step, opname, route, if same { "equal" } else { "different" },
                    vmon::ctx::hex_of_blocks(a.t_blocks()), vmon::ctx::hex_of_blocks(b.t_blocks()))),
                Outcome::Panicked(msg) => self.ctx.violate("no-panic", self.ev, "eq-routes", format!("comparison / hashing panicked: {}", msg)),
            }
        }
        if same {
            self.ctx.check("extensional-hash", heq, self.ev, &key, || {
                format!("step {} ({}): equal functions hash differently: a={} b={}", step, opname,
                    vmon::ctx::hex_of_blocks(a.t_blocks()), vmon::ctx::hex_of_blocks(b.t_blocks()))
            });
        }
    }

    /// A value produced by step `opname`: monitors M1 and M2, then it may join the pool.
    fn produced(&mut self, t: T, opname: &str) {
        let f = match self.func(&t, opname) {
            Some(f) => f,
            None => return,
        };
        self.ctx.cell_only(&format!("op|{}|{}|{}", opname, T::ty(), if self.n < 6 { "n<6" } else if self.n == 6 { "n=6" } else { "n>=7" }));
        // against every pool member
        let pool = std::mem::take(&mut self.pool);
        for p in &pool {
            if let Some(fp) = guard(|| (0..1usize << self.n).map(|m| p.t_value(m)).collect::<Vec<bool>>()).ok() {
                self.compare(&t, &f, p, &fp, opname);
            }
        }
        self.pool = pool;
        // against every earlier value with the same function (different histories)
        if let Some(list) = self.dict.get(&f).cloned() {
            for u in &list {
                self.compare(&t, &f, u, &f, opname);
            }
        } else if f.iter().any(|b| *b) && f.iter().any(|b| !*b) {
            self.nonconst += 1;
        }
        let e = self.dict.entry(f).or_default();
        if e.len() < 4 {
            e.push(t.clone());
        }
        if self.pool.len() < 8 {
            self.pool.push(t);
        } else {
            let k = self.rng.below(8);
            self.pool[k] = t;
        }
    }

    fn pick(&mut self) -> T {
        let k = self.rng.below(self.pool.len());
        self.pool[k].clone()
    }

    fn arbitrary_usize(&mut self) -> usize {
        match self.rng.below(6) {
            0 => self.rng.below(self.n + 3),
            1 => 63 + self.rng.below(3),
            2 => usize::MAX - self.rng.below(2),
            3 => self.rng.next_u64() as usize,
            _ => self.rng.below(self.n + 1),
        }
    }

    fn hostile_string(&mut self, base: &str) -> String {
        let chars: Vec<char> = base.chars().collect();
        let mut s: Vec<char> = chars.clone();
        match self.rng.below(8) {
            0 if !s.is_empty() => {
                let p = self.rng.below(s.len());
                s[p] = *self.rng.pick(&['+', '-', ' ', 'g', 'x', 'é', 'F', 'A']);
            }
            1 if !s.is_empty() => {
                // '+' at the start of a 16-digit chunk
                let chunks = std::cmp::max(1, s.len() / 16);
                let p = self.rng.below(chunks) * 16;
                let q = std::cmp::min(p, s.len() - 1);
                s[q] = '+';
            }
            2 => s.push('0'),
            3 if !s.is_empty() => {
                s.pop();
            }
            4 => {
                for c in s.iter_mut() {
                    *c = c.to_ascii_uppercase();
                }
            }
            5 if !s.is_empty() => {
                // digit too large for tiny tables, any digit elsewhere
                let p = self.rng.below(s.len());
                s[p] = *self.rng.pick(&['f', '8', '4', '2', '7', 'c']);
            }
            6 => s = vec![],
            _ => {}
        }
        s.into_iter().collect()
    }

    fn step_once(&mut self) {
        let n = self.n;
        let size = 1usize << n;
        let opname = *self.rng.pick(&OPS);
        let a = self.pick();
        let b = self.pick();
        let i = if n > 0 { self.rng.below(n) } else { 0 };
        let j = if n > 0 { self.rng.below(n) } else { 0 };
        let m = self.rng.below(size);
        let form8 = self.rng.below(8);
        let form4 = self.rng.below(4);
        let arb = self.arbitrary_usize();
        let rnd_blocks = vmon::gen::any_fam(n, &mut self.rng).1;
        let hexa = a.t_to_hex_string();
        let hostile = self.hostile_string(&hexa);
        let kth = self.rng.below(std::cmp::min(size.saturating_mul(4), 300) + 1);
        let other_n = {
            let k = self.rng.below(13);
            if k == n {
                (n + 1) % 13
            } else {
                k
            }
        };
        let other_blocks = vmon::gen::gen(*self.rng.pick(&[vmon::gen::Fam::Random, vmon::gen::Fam::Dense, vmon::gen::Fam::Const]), other_n, &mut self.rng);
        let mut cross_clone: Option<(Lut, Lut, Vec<Lut>)> = None;
        // every operation returns the values it produced; a panic on valid arguments belongs to the
        // property that owns the operation and is only counted here
        let r: Outcome<Vec<T>> = guard(|| -> Vec<T> {
            match opname {
                "zero" => vec![T::t_zero(n)],
                "one" => vec![T::t_one(n)],
                "default" => {
                    if T::STATIC || n == 0 {
                        vec![T::t_default(n)]
                    } else {
                        vec![]
                    }
                }
                "nth_var" => {
                    if n > 0 {
                        vec![T::t_nth_var(n, i)]
                    } else {
                        vec![]
                    }
                }
                "parity" => vec![T::t_parity(n)],
                "majority" => vec![T::t_majority(n)],
                "threshold" => vec![T::t_threshold(n, arb)],
                "equals" => vec![T::t_equals(n, arb)],
                "symmetric" => vec![T::t_symmetric(n, arb)],
                "random" => vec![T::t_random(n)],
                "from_blocks" => vec![T::t_from_blocks(n, &rnd_blocks)],
                "from_hex(print)" => T::t_from_hex_string(n, &hexa).into_iter().collect(),
                "from_hex(arbitrary)" => T::t_from_hex_string(n, &hostile).into_iter().collect(),
                "dyn-roundtrip" | "route:static-dyn-static" => T::try_from_dyn(a.to_dyn()).into_iter().collect(),
                "route:clone_from" => {
                    // std trait methods are public API too: overwrite another value with Clone::clone_from
                    let mut d = b.clone();
                    d.clone_from(&a);
                    let mut e = T::t_zero(n);
                    e.clone_from(&a);
                    vec![d, e]
                }
                "route:vec-clone_from" => {
                    let src = vec![a.clone(), b.clone()];
                    let mut dst = vec![T::t_one(n), a.clone()];
                    dst.clone_from(&src);
                    let mut o: Option<T> = Some(b.clone());
                    o.clone_from(&Some(a.clone()));
                    let mut v = dst;
                    v.extend(o);
                    v
                }
                "clone_from-other-size" => {
                    // dynamic Lut only: the destination has another size; afterwards it must BE the source
                    // (checked here, the value does not join this history's pool of n-variable tables)
                    if !T::STATIC {
                        let src = Lut::from_blocks(other_n, &other_blocks);
                        let mut d = a.to_dyn();
                        d.clone_from(&src);
                        let mut dv = vec![a.to_dyn(), Lut::zero(n)];
                        dv.clone_from(&vec![src.clone()]);
                        cross_clone = Some((src, d, dv));
                    }
                    vec![]
                }
                "tryfrom-other-size" => {
                    // a conversion from a Lut of another size must fail; whatever it returns as Ok is a value
                    // obtained through the public API and is held to the representation invariant
                    if T::STATIC {
                        T::try_from_dyn(Lut::from_blocks(other_n, &other_blocks)).into_iter().collect()
                    } else {
                        vec![]
                    }
                }
                "int-roundtrip" => match int_route(n, a.t_blocks()) {
                    Some(b) => vec![T::t_from_blocks(n, &b)],
                    None => vec![],
                },
                "not-form" => vec![T::t_not_form(form4, &a).0],
                "and-form" => vec![T::t_bin_form(BinOp::And, form8, &a, &b).0],
                "or-form" => vec![T::t_bin_form(BinOp::Or, form8, &a, &b).0],
                "xor-form" => vec![T::t_bin_form(BinOp::Xor, form8, &a, &b).0],
                "flip" if n > 0 => vec![a.t_flip(i)],
                "flip_inplace" if n > 0 => {
                    let mut x = a.clone();
                    x.t_flip_inplace(i);
                    vec![x]
                }
                "swap" if n > 0 => vec![a.t_swap(i, j)],
                "swap_inplace" if n > 0 => {
                    let mut x = a.clone();
                    x.t_swap_inplace(i, j);
                    vec![x]
                }
                "swap_adjacent" if n > 1 => {
                    let mut x = a.clone();
                    let r = x.t_swap_adjacent(i % (n - 1));
                    vec![r, x]
                }
                "swap_adjacent_inplace" if n > 1 => {
                    let mut x = a.clone();
                    x.t_swap_adjacent_inplace(i % (n - 1));
                    vec![x]
                }
                "cofactors" if n > 0 => {
                    let (c0, c1) = a.t_cofactors(i);
                    vec![c0, c1]
                }
                "from_cofactors" if n > 0 => vec![T::t_from_cofactors(&a, &b, i)],
                "set_bit" => {
                    let mut x = a.clone();
                    x.t_set_bit(m);
                    vec![x]
                }
                "unset_bit" => {
                    let mut x = a.clone();
                    x.t_unset_bit(m);
                    vec![x]
                }
                "set_value" => {
                    let mut x = a.clone();
                    x.t_set_value(m, form8 % 2 == 0);
                    vec![x]
                }
                "not_inplace" => vec![T::t_not_form(1, &a).0],
                "and_inplace" => vec![T::t_bin_form(BinOp::And, 1, &a, &b).0],
                "or_inplace" => vec![T::t_bin_form(BinOp::Or, 1, &a, &b).0],
                "xor_inplace" => vec![T::t_bin_form(BinOp::Xor, 1, &a, &b).0],
                "p_canon" if n <= 8 => vec![a.t_p_canon().0],
                "n_canon" if n <= 8 => vec![a.t_n_canon().0],
                "npn_canon" if n <= 6 => vec![a.t_npn_canon().0],
                "iter-item" => T::t_all_functions(n).nth(kth).into_iter().collect(),
                "iter-successor" => T::t_iter_from(&a).nth(1).into_iter().collect(),
                "sop-roundtrip" if n <= 8 => {
                    let s = Sop::from(&a.to_dyn());
                    T::try_from_dyn(Lut::from(&s)).into_iter().collect()
                }
                "esop-roundtrip" if n <= 8 => {
                    let s = Esop::from(&a.to_dyn());
                    T::try_from_dyn(Lut::from(&s)).into_iter().collect()
                }
                // tables tabulated from two-level forms given as arbitrary cube lists (constant cubes anywhere in the
                // list, repeated cubes, any order): the conversion must yield a well-formed table like every other
                // source of values
                "from-sop-cubes" | "from-esop-cubes" | "from-soes-terms" if n <= 10 => {
                    use volute::sop::{Cube, Ecube, Soes};
                    let len = (kth % 5) + 1;
                    let mut r = Rng::new(hash_of(&a) ^ kth as u64);
                    let cubes: Vec<Cube> = (0..len)
                        .map(|_| {
                            let mut pos = 0u32;
                            let mut neg = 0u32;
                            for v in 0..n {
                                match r.below(if n <= 3 { 3 } else { 5 }) {
                                    0 => pos |= 1 << v,
                                    1 => neg |= 1 << v,
                                    _ => {}
                                }
                            }
                            if r.chance(1, 4) {
                                Cube::one()
                            } else {
                                Cube::from_mask(pos, neg)
                            }
                        })
                        .collect();
                    let l = match opname {
                        "from-sop-cubes" => Lut::from(&Sop::from_cubes(n, cubes)),
                        "from-esop-cubes" => Lut::from(&Esop::from_cubes(n, cubes)),
                        _ => {
                            let terms: Vec<Ecube> = cubes
                                .iter()
                                .map(|c| {
                                    let vs: Vec<usize> = c.pos_vars().chain(c.neg_vars()).collect();
                                    Ecube::from_vars(&vs, c.neg_vars().count() % 2 == 1)
                                })
                                .collect();
                            Lut::from(&Soes::from_cubes(n, terms))
                        }
                    };
                    T::try_from_dyn(l).into_iter().collect()
                }
                // ---- the same function as `a`, by another route ----
                "route:print-parse" => T::t_from_hex_string(n, &hexa).into_iter().collect(),
                "route:from_hex(upper)" => T::t_from_hex_string(n, &hexa.to_uppercase()).into_iter().collect(),
                "route:from_blocks(blocks)" => vec![T::t_from_blocks(n, a.t_blocks())],
                "route:bit-by-bit" => {
                    let mut x = if form8 % 2 == 0 { T::t_zero(n) } else { T::t_one(n) };
                    for mm in 0..size {
                        if a.t_value(mm) {
                            x.t_set_bit(mm);
                        } else {
                            x.t_unset_bit(mm);
                        }
                    }
                    vec![x]
                }
                "route:double-flip" if n > 0 => vec![a.t_flip(i).t_flip(i)],
                "route:flip-twice-inplace" if n > 0 => {
                    let mut x = a.clone();
                    x.t_flip_inplace(i);
                    x.t_flip_inplace(j);
                    x.t_flip_inplace(i);
                    x.t_flip_inplace(j);
                    vec![x]
                }
                "route:double-swap" if n > 0 => vec![a.t_swap(i, j).t_swap(j, i)],
                "route:swap-as-adjacent" if n > 1 => {
                    // swap(i, i+1) undone by swap_adjacent(i)
                    let k = i % (n - 1);
                    let mut x = a.t_swap(k, k + 1);
                    x.t_swap_adjacent_inplace(k);
                    vec![x]
                }
                "route:x^y^y" => {
                    let x = T::t_bin_form(BinOp::Xor, form8, &a, &b).0;
                    vec![T::t_bin_form(BinOp::Xor, (form8 + 3) % 8, &x, &b).0]
                }
                "route:de-morgan" => {
                    // a & b == !(!a | !b); both join the history
                    let na = T::t_not_form(form4, &a).0;
                    let nb = T::t_not_form((form4 + 1) % 4, &b).0;
                    let o = T::t_bin_form(BinOp::Or, form8, &na, &nb).0;
                    vec![T::t_not_form(form4, &o).0, T::t_bin_form(BinOp::And, (form8 + 5) % 8, &a, &b).0]
                }
                "route:shannon" if n > 0 => {
                    let (c0, c1) = a.t_cofactors(i);
                    vec![T::t_from_cofactors(&c0, &c1, i)]
                }
                "route:cofactor-of-independent" if n > 0 => {
                    // cofactors of a cofactor for the same variable are that cofactor
                    let (c0, _) = a.t_cofactors(i);
                    let (d0, d1) = c0.t_cofactors(i);
                    vec![c0, d0, d1]
                }
                "route:clone" => vec![a.clone()],
                "route:double-not" => vec![T::t_not_form((form4 + 2) % 4, &T::t_not_form(form4, &a).0).0],
                "route:and-self" => vec![T::t_bin_form(BinOp::And, form8, &a, &a).0],
                "route:or-zero" => vec![T::t_bin_form(BinOp::Or, form8, &a, &T::t_zero(n)).0],
                "route:xor-zero" => vec![T::t_bin_form(BinOp::Xor, form8, &T::t_zero(n), &a).0],
                "route:and-one" => vec![T::t_bin_form(BinOp::And, form8, &T::t_one(n), &a).0],
                "route:min-max" => vec![std::cmp::min(a.clone(), b.clone()), std::cmp::max(a.clone(), b.clone())],
                "route:sort" => {
                    let mut v = vec![a.clone(), b.clone(), a.clone()];
                    v.sort();
                    v.dedup();
                    v
                }
                _ => vec![],
            }
        });
        if let Some((src, d, dv)) = cross_clone {
            let step = self.step;
            let ok = d == src && d.num_vars() == src.num_vars() && d.blocks() == src.blocks() && well_formed(d.num_vars(), d.blocks()).is_ok()
                && dv.len() == 1 && dv[0] == src && dv[0].num_vars() == src.num_vars() && dv[0].blocks() == src.blocks();
            self.ctx.cell_only("op|clone_from-other-size|Lut");
            self.ctx.check("repr", ok, self.ev, "op=clone_from-other-size", || {
                format!("step {}: clone_from of a {}-variable Lut into a {}-variable one left num_vars={} blocks={} (source blocks={})",
                    step, src.num_vars(), n, d.num_vars(), vmon::ctx::hex_of_blocks(d.blocks()), vmon::ctx::hex_of_blocks(src.blocks()))
            });
        }
        match r {
            Outcome::Returned(vs) => {
                for v in vs {
                    self.produced(v, opname);
                }
            }
            Outcome::Panicked(msg) => {
                self.ctx.bump(&format!("panic-on-valid-arguments|{}", opname), 1);
                self.ctx.note(format!("{} panicked on in-range arguments (n={}): {} — owned by the property of that operation", opname, n, msg));
            }
        }
    }
}

trait OutcomeExt<T> {
    fn ok(self) -> Option<T>;
}
impl<T> OutcomeExt<T> for Outcome<T> {
    fn ok(self) -> Option<T> {
        match self {
            Outcome::Returned(v) => Some(v),
            Outcome::Panicked(_) => None,
        }
    }
}

/// blocks -> LutN -> integer -> LutN -> blocks for the sizes that have integer conversions
fn int_route(n: usize, b: &[u64]) -> Option<Vec<u64>> {
    match n {
        3 => {
            let x: u8 = Lut3::from_blocks(b).into();
            Some(Lut3::from(x).blocks().to_vec())
        }
        4 => {
            let x: u16 = Lut4::from_blocks(b).into();
            Some(Lut4::from(x).blocks().to_vec())
        }
        5 => {
            let x: u32 = Lut5::from_blocks(b).into();
            Some(Lut5::from(x).blocks().to_vec())
        }
        6 => {
            let x: u64 = Lut6::from_blocks(b).into();
            Some(Lut6::from(x).blocks().to_vec())
        }
        _ => None,
    }
}

fn exec<T: Tbl>(ctx: &mut Ctx, ev: &Ev) {
    let n = ev.n;
    let hseed = ev.ints[0];
    let steps = ev.ints[1] as usize;
    let mut rng = Rng::new(hseed);
    let mut h = Hist::<T> {
        ctx,
        ev,
        n,
        pool: Vec::new(),
        dict: HashMap::new(),
        rng: rng.fork(1),
        step: 0,
        nonconst: 0,
        routes_tick: 0,
    };
    // start from a few constructors
    let starts: Vec<T> = match guard(|| vec![T::t_zero(n), T::t_random(n), T::t_from_blocks(n, &vmon::gen::any_fam(n, &mut rng).1)]) {
        Outcome::Returned(v) => v,
        Outcome::Panicked(_) => return,
    };
    for s in starts {
        h.produced(s, "start");
    }
    for k in 0..steps {
        h.step = k + 1;
        h.step_once();
    }
    let nontrivial = h.nonconst >= 4;
    let cell = format!("history|{}|n={}", T::ty(), n);
    h.ctx.event(&cell, ev, nontrivial);
}

fn exec_cross(ctx: &mut Ctx, ev: &Ev) {
    // dynamic Lut only: tables with identical blocks but different variable counts are different
    let (na, nb) = (ev.n, ev.i(0));
    ctx.event("cross-size|Lut", ev, true);
    let r = guard(|| {
        let a = Lut::from_blocks(na, &ev.tabs[0]);
        let b = Lut::from_blocks(nb, &ev.tabs[1]);
        (a == b, a.cmp(&b) == std::cmp::Ordering::Equal, a != b)
    });
    match r {
        Outcome::Returned((eq, oeq, ne)) => {
            ctx.check("extensional-eq", !eq && ne && !oeq, ev, "cross-size", || format!("Lut of {} variables compares equal to a Lut of {} variables", na, nb));
        }
        Outcome::Panicked(m) => ctx.violate("no-panic", ev, "cross-size", format!("comparison of Luts of different sizes panicked: {}", m)),
    }
}

fn exec_dispatch(ctx: &mut Ctx, ev: &Ev) {
    if ev.op == "cross" {
        return exec_cross(ctx, ev);
    }
    with_ty!(ev.is_static(), ev.n, T => exec::<T>(ctx, ev))
}

const MAX_N: usize = 12;

fn main() {
    silence_panics();
    let cli = Cli::parse();
    let mut ctx = cli.ctx("C02");
    if let Some(ev) = cli.replay_event() {
        exec_dispatch(&mut ctx, &ev);
        std::process::exit(vmon::ctx::report_replay(&ctx));
    }
    let thorough = ctx.thorough();
    let seed = cli.seed;
    let mut shards: Vec<(usize, &str, usize, usize)> = Vec::new();
    for n in 0..=MAX_N {
        for ty in ["Lut", "LutN"] {
            let chunks = 4;
            for c in 0..chunks {
                shards.push((n, ty, c, chunks));
            }
        }
    }
    shards.sort_by_key(|s| std::cmp::Reverse(s.0));
    run_sharded(&mut ctx, cli.threads, shards.len(), |ctx, k| {
        let (n, ty, c, _chunks) = shards[k];
        let mut rng = Rng::new(seed ^ ((n as u64) << 52) ^ ((c as u64) << 45) ^ if ty == "Lut" { 1 } else { 2 });
        let per_chunk = match (thorough, n) {
            (false, 0..=6) => 300,
            (false, 7..=9) => 100,
            (false, _) => 30,
            (true, 0..=6) => 24000,
            (true, 7..=9) => 6000,
            (true, _) => 1200,
        };
        for _ in 0..per_chunk {
            let steps = rng.range(40, 80);
            let ev = Ev::new("history", ty, n).int64(rng.next_u64()).int(steps);
            exec_dispatch(ctx, &ev);
        }
        if ty == "Lut" && c == 0 {
            for nb in 0..=MAX_N {
                if nb != n {
                    let size = std::cmp::min(vmon::gen::words(n), vmon::gen::words(nb));
                    let _ = size;
                    let a = Model::constant(n, false).to_blocks();
                    let b = Model::constant(nb, false).to_blocks();
                    exec_dispatch(ctx, &Ev::new("cross", "Lut", n).int(nb).tab(&a).tab(&b));
                    // same first block, well formed for both sizes
                    if n < 6 && nb < 6 {
                        let lo = std::cmp::min(n, nb);
                        let a = vmon::gen::random_blocks(lo, &mut rng);
                        exec_dispatch(ctx, &Ev::new("cross", "Lut", n).int(nb).tab(&a).tab(&a));
                    }
                }
            }
        }
    });
    // hidden-state monitor: sampled events of all shards again, mixed, on one thread (ctx::run_mix)
    run_mix(&mut ctx, seed, |c, e| exec_dispatch(c, e));
    // and concurrently: the same sample on several threads at once (shared state inside the library)
    run_mix_concurrent(&mut ctx, seed, cli.threads, |c, e| exec_dispatch(c, e));
    let mut required: Vec<String> = Vec::new();
    for n in 0..=MAX_N {
        for ty in ["Lut", "LutN"] {
            required.push(format!("history|{}|n={}", ty, n));
        }
    }
    // every operation observed at some n < 6 and some n >= 7, in both types
    for op in OPS {
        for ty in ["Lut", "LutN"] {
            if op == "int-roundtrip" {
                required.push(format!("op|{}|{}|n<6", op, ty));
                continue;
            }
            if op == "default" && ty == "Lut" {
                required.push(format!("op|{}|{}|n<6", op, ty));
                continue;
            }
            if op == "clone_from-other-size" {
                continue; // checked inline (cell op|clone_from-other-size|Lut), produces no pool value
            }
            if op == "tryfrom-other-size" {
                // a correct library returns Err for every such conversion: nothing is produced, nothing to require
                continue;
            }
            for reg in ["n<6", "n>=7"] {
                // canonization is only driven up to the sizes where it is cheap
                if reg == "n>=7" && matches!(op, "p_canon" | "npn_canon") {
                    continue;
                }
                required.push(format!("op|{}|{}|{}", op, ty, reg));
            }
        }
    }
    required.push("cross-size|Lut".into());
    required.push("op|clone_from-other-size|Lut".into());
    let eqc = ctx.counters.get("comparisons-equal-function").copied().unwrap_or(0);
    if eqc < 1000 {
        required.push("at least 1000 equal-function comparisons between values with different histories".into());
    }
    cli.finish(&ctx, &required, RULE);
}
