//! C12 — Cube algebra: evaluation, conjunction, implication and intersection are semantic
//! (DESIGN.md section 3, C12).

use volute::sop::Cube;
use volute::Lut;

use vmon::twolevel::{all_cubes, CubeM};
use vmon::*;

const RULE: &str = "events: single = one cube (constructors, value on every assignment, counts, accessors); pair = \
two cubes (the four & forms, canonical zero, == vs semantic equality, implies, intersects); chain = ((a&b)&c)&d; \
all = Cube::all(n) enumeration; minterm; implies_lut = one cube against one function. Exhaustive over all \
cubes/pairs/assignments for n<=5 (zero cube included), all functions n<=3 (n=4 thorough) for implies_lut; \
random cubes with support <= 12 over 32 variables, semantics decided by enumerating the support. non-trivial = \
cube(s) neither zero nor one; distinct = distinct (op, n, literal masks)";

fn ev_cubes(op: &str, n: usize, cs: &[CubeM]) -> Ev {
    let mut ev = Ev::new(op, "Cube", n);
    for c in cs {
        ev = ev.int64(c.pos as u64).int64(c.neg as u64);
    }
    ev
}

fn cube_at(ev: &Ev, k: usize) -> CubeM {
    CubeM::new(ev.ints[2 * k] as u32, ev.ints[2 * k + 1] as u32)
}

fn kind(c: &CubeM) -> &'static str {
    if c.contradictory() {
        "zero"
    } else if c.pos == 0 && c.neg == 0 {
        "one"
    } else if c.lits() == 1 {
        "literal"
    } else {
        "multi"
    }
}

/// assignments used to decide semantics: all of them for n <= 12 variables of support
fn assignments(n: usize, support: u32, rng: &mut Rng) -> Vec<u64> {
    // boundary assignments are always included: all variables true / false, alternating patterns, with and
    // without garbage above bit 31 (value() takes a usize and must ignore what no cube can mention)
    let boundary = [
        0u64,
        0xffff_ffff,
        u64::MAX,
        0xffff_ffff_0000_0000,
        0x5555_5555,
        0xaaaa_aaaa,
        0x8000_0000,
        0x7fff_ffff,
        1,
        0xffff_fffe,
    ];
    if n <= 12 {
        let mut v: Vec<u64> = (0..1u64 << n).collect();
        v.extend(boundary);
        return v;
    }
    // enumerate the support exactly, randomise every other bit of the 32-bit assignment
    let vars: Vec<u32> = (0..32).filter(|v| (support >> v) & 1 == 1).collect();
    if vars.len() > 12 {
        // dense cubes: the support cannot be enumerated.  Random assignments almost never satisfy a dense
        // cube, so the callers add the satisfying assignments and their one-literal neighbours themselves
        // (see dense_assignments); here: random and boundary patterns.
        let mut out: Vec<u64> = (0..128).map(|_| rng.next_u64() & 0xffff_ffff).collect();
        out.extend(boundary);
        return out;
    }
    let mut out = Vec::new();
    for s in 0..(1u64 << vars.len()) {
        let mut m = rng.next_u64() & 0xffff_ffff & !(support as u64);
        for (k, v) in vars.iter().enumerate() {
            if (s >> k) & 1 == 1 {
                m |= 1u64 << v;
            }
        }
        out.push(m);
    }
    out.extend(boundary);
    out
}

/// For dense cubes: assignments that satisfy the cube (free variables random) and, for every literal, the
/// neighbour that violates exactly that literal.
fn dense_assignments(c: &CubeM, rng: &mut Rng) -> Vec<u64> {
    let mut out = Vec::new();
    if c.contradictory() {
        return out;
    }
    for _ in 0..4 {
        let free = rng.next_u64() & 0xffff_ffff & !(c.support() as u64);
        let sat = free | c.pos as u64;
        out.push(sat);
        for v in 0..32 {
            if (c.support() >> v) & 1 == 1 {
                out.push(sat ^ (1u64 << v));
            }
        }
    }
    out
}

fn exec(ctx: &mut Ctx, ev: &Ev, rng: &mut Rng) {
    let n = ev.n;
    match ev.op.as_str() {
        "single" => {
            let m = cube_at(ev, 0);
            ctx.event(&format!("single|{}|{}", kind(&m), if n > 12 { "wide" } else { "small" }), ev, !m.contradictory() && m.lits() > 0);
            let r = guard(|| {
                let c = Cube::from_mask(m.pos, m.neg);
                let pv: Vec<usize> = (0..32).filter(|v| (m.pos >> v) & 1 == 1).collect();
                let nv: Vec<usize> = (0..32).filter(|v| (m.neg >> v) & 1 == 1).collect();
                let c2 = Cube::from_vars(&pv, &nv);
                (c, c2, c.is_zero(), c.is_one(), c.is_constant(), c.num_lits(), c.num_gates(),
                 c.pos_vars().collect::<Vec<_>>(), c.neg_vars().collect::<Vec<_>>())
            });
            let (c, c2, isz, iso, isc, lits, gates, pv, nv) = match r {
                Outcome::Returned(x) => x,
                Outcome::Panicked(msg) => {
                    ctx.violate("no-panic", ev, "single", format!("cube construction/inspection panicked: {}", msg));
                    return;
                }
            };
            let empty = m.contradictory();
            ctx.check("constructors-agree", c == c2, ev, "from_vars", || "from_mask and from_vars build different cubes".into());
            ctx.check("zero-canonical", !empty || c == Cube::zero(), ev, "ctor-zero", || "a contradictory cube is not the canonical zero cube".into());
            ctx.check("predicates", isz == empty && iso == (!empty && m.lits() == 0) && isc == (isz || iso), ev, "is_*", || {
                format!("is_zero={} is_one={} is_constant={} for pos={:#x} neg={:#x}", isz, iso, isc, m.pos, m.neg)
            });
            ctx.check("counts", lits == m.lits() && gates == std::cmp::max(m.lits(), 1) - 1, ev, "counts", || {
                format!("num_lits={} num_gates={} for pos={:#x} neg={:#x}", lits, gates, m.pos, m.neg)
            });
            if !empty {
                let back = CubeM::of(&c);
                ctx.check("accessors", back == m && pv.windows(2).all(|w| w[0] < w[1]) && nv.windows(2).all(|w| w[0] < w[1]), ev, "vars", || {
                    format!("pos_vars/neg_vars give {:?}/{:?} for pos={:#x} neg={:#x}", pv, nv, m.pos, m.neg)
                });
                // single-literal constructors
                if m.lits() == 1 {
                    let v = (m.pos | m.neg).trailing_zeros() as usize;
                    let l = if m.pos != 0 { Cube::nth_var(v) } else { Cube::nth_var_inv(v) };
                    ctx.check("constructors-agree", l == c, ev, "nth_var", || "nth_var / nth_var_inv differ from from_mask".into());
                }
                if m.lits() == 0 {
                    ctx.check("constructors-agree", c == Cube::one(), ev, "one", || "Cube::one() differs from the empty cube".into());
                }
            }
            let mut asg = assignments(n, m.support(), rng);
            asg.extend(dense_assignments(&m, rng));
            let vals = guard(|| asg.iter().map(|a| c.value(*a as usize)).collect::<Vec<bool>>());
            match vals {
                Outcome::Returned(vals) => {
                    let bad = asg.iter().zip(vals.iter()).find(|(a, v)| (!empty && m.sat(**a)) != **v);
                    ctx.checked("value-semantic", asg.len() as u64);
                    ctx.check("value-semantic", bad.is_none(), ev, kind(&m), || {
                        let (a, v) = bad.unwrap();
                        format!("value({:#x}) = {} for cube pos={:#x} neg={:#x}", a, v, m.pos, m.neg)
                    });
                }
                Outcome::Panicked(msg) => ctx.violate("no-panic", ev, "value", format!("value panicked: {}", msg)),
            }
        }
        "pair" => {
            let (ma, mb) = (cube_at(ev, 0), cube_at(ev, 1));
            ctx.event(&format!("pair|{}&{}|{}", kind(&ma), kind(&mb), if n > 12 { "wide" } else { "small" }), ev,
                !ma.contradictory() && !mb.contradictory() && ma.lits() > 0 && mb.lits() > 0);
            let r = guard(|| {
                // operands that are results of operations half of the time (CubeM::real_via)
                let d = ev.digest();
                let a = ma.real_via(d);
                let b = mb.real_via(d.rotate_left(29));
                (a, b, [a & b, &a & b, &a & &b, a & &b], a.implies(b), a.intersects(b), a == b)
            });
            let (a, b, ands, imp, ints, eq) = match r {
                Outcome::Returned(x) => x,
                Outcome::Panicked(msg) => {
                    ctx.violate("no-panic", ev, "pair", format!("cube operation panicked: {}", msg));
                    return;
                }
            };
            let mut asg = assignments(n, ma.support() | mb.support(), rng);
            let dense = (ma.support() | mb.support()).count_ones() > 12;
            let ea = ma.contradictory();
            let eb = mb.contradictory();
            if dense {
                asg.extend(dense_assignments(&ma, rng));
                asg.extend(dense_assignments(&mb, rng));
                asg.extend(dense_assignments(&ma.and(&mb), rng));
            }
            let sa: Vec<bool> = asg.iter().map(|m| !ea && ma.sat(*m)).collect();
            let sb: Vec<bool> = asg.iter().map(|m| !eb && mb.sat(*m)).collect();
            let (both_sat, a_in_b, same) = if dense {
                // set semantics of cubes, decided on the literal sets (the support is too large to enumerate):
                // the conjunction is satisfiable iff no variable occurs with both polarities; a is inside b iff a
                // is empty or b is non-empty and every literal of b is a literal of a; equal sets iff both empty
                // or the same literals
                let both = !ea && !eb && !ma.and(&mb).contradictory();
                let inside = ea || (!eb && (ma.pos | mb.pos) == ma.pos && (ma.neg | mb.neg) == ma.neg);
                let eq = (ea && eb) || (!ea && !eb && ma == mb);
                (both, inside, eq)
            } else {
                (
                    sa.iter().zip(sb.iter()).any(|(x, y)| *x && *y),
                    sa.iter().zip(sb.iter()).all(|(x, y)| !*x || *y),
                    sa == sb,
                )
            };
            ctx.check("forms-agree", ands.iter().all(|c| *c == ands[0]), ev, "and-forms", || "the four & forms give different cubes".into());
            let c = ands[0];
            let vals = guard(|| asg.iter().map(|m| c.value(*m as usize)).collect::<Vec<bool>>());
            if let Outcome::Returned(vals) = vals {
                let ok = vals.iter().zip(sa.iter().zip(sb.iter())).all(|(v, (x, y))| *v == (*x && *y));
                ctx.checked("and-semantic", asg.len() as u64);
                ctx.check("and-semantic", ok, ev, "and", || format!("(a & b).value differs from a.value && b.value for a=({:#x},{:#x}) b=({:#x},{:#x})", ma.pos, ma.neg, mb.pos, mb.neg));
            } else {
                ctx.violate("no-panic", ev, "and-value", "value of a & b panicked".into());
            }
            ctx.check("zero-canonical", (c == Cube::zero()) == !both_sat && c.is_zero() == !both_sat, ev, "and-zero", || {
                format!("a & b {} satisfiable but == Cube::zero() is {} for a=({:#x},{:#x}) b=({:#x},{:#x})", if both_sat { "is" } else { "is not" }, c == Cube::zero(), ma.pos, ma.neg, mb.pos, mb.neg)
            });
            ctx.check("implies-semantic", imp == a_in_b, ev, "implies", || format!("a.implies(b) = {} but set inclusion is {} for a=({:#x},{:#x}) b=({:#x},{:#x})", imp, a_in_b, ma.pos, ma.neg, mb.pos, mb.neg));
            ctx.check("intersects-semantic", ints == both_sat, ev, "intersects", || format!("a.intersects(b) = {} but the sets {} for a=({:#x},{:#x}) b=({:#x},{:#x})", ints, if both_sat { "meet" } else { "are disjoint" }, ma.pos, ma.neg, mb.pos, mb.neg));
            ctx.check("eq-semantic", eq == same, ev, "eq", || format!("a == b is {} but semantic equality is {} for a=({:#x},{:#x}) b=({:#x},{:#x})", eq, same, ma.pos, ma.neg, mb.pos, mb.neg));
            // the other routes to equality: !=, cmp, partial_cmp, <..>=, Hash, HashSet, BTreeSet, sort, min/max, clone
            match guard(|| vmon::obs::eq_ord_hash_routes(&a, &b, same)) {
                Outcome::Returned(Ok(k)) => ctx.checked("eq-routes-agree", k as u64),
                Outcome::Returned(Err(route)) => ctx.violate("eq-routes-agree", ev, route, format!(
                    "route `{}` disagrees with semantic equality ({}) for a=({:#x},{:#x}) b=({:#x},{:#x})", route, same, ma.pos, ma.neg, mb.pos, mb.neg)),
                Outcome::Panicked(msg) => ctx.violate("no-panic", ev, "eq-routes", format!("comparison / hashing panicked: {}", msg)),
            }
        }
        "chain" => {
            let ms: Vec<CubeM> = (0..4).map(|k| cube_at(ev, k)).collect();
            ctx.event("chain|((a&b)&c)&d", ev, true);
            let r = guard(|| {
                let d = ev.digest();
                let cs: Vec<Cube> = ms.iter().enumerate().map(|(k, m)| m.real_via(d.rotate_left(13 * k as u32))).collect();
                let left = ((cs[0] & cs[1]) & cs[2]) & cs[3];
                let right = cs[0] & (cs[1] & (cs[2] & cs[3]));
                (left, right)
            });
            match r {
                Outcome::Returned((l, rr)) => {
                    let all = ms.iter().fold(CubeM::new(0, 0), |a, b| a.and(b));
                    let empty = all.contradictory() || ms.iter().any(|m| m.contradictory());
                    ctx.check("zero-canonical", (l == Cube::zero()) == empty && l == rr, ev, "chain", || "a chain of & does not end in the canonical zero / is not associative".into());
                    if !empty {
                        ctx.check("and-semantic", CubeM::of(&l) == all, ev, "chain-lits", || "chain of & has the wrong literals".into());
                    }
                }
                Outcome::Panicked(msg) => ctx.violate("no-panic", ev, "chain", format!("chain panicked: {}", msg)),
            }
        }
        "all" => {
            ctx.event(&format!("all|n={}", n), ev, true);
            match guard(|| Cube::all(n).collect::<Vec<Cube>>()) {
                Outcome::Returned(v) => {
                    let want = all_cubes(n);
                    let mut got: Vec<CubeM> = v.iter().map(CubeM::of).collect();
                    let len = got.len();
                    got.sort();
                    got.dedup();
                    let mut w = want.clone();
                    w.sort();
                    ctx.check("enumeration", len == want.len() && got == w && v.iter().all(|c| !c.is_zero()), ev, "all", || {
                        format!("Cube::all({}) yields {} cubes ({} distinct), expected the {} non-zero cubes", n, len, got.len(), want.len())
                    });
                }
                Outcome::Panicked(msg) => ctx.violate("no-panic", ev, "all", format!("Cube::all panicked: {}", msg)),
            }
        }
        "minterm" => {
            let m = ev.ints[0];
            ctx.event(&format!("minterm|n={}", n), ev, n > 0);
            match guard(|| Cube::minterm(n, m as usize)) {
                Outcome::Returned(c) => {
                    let mask = if n >= 32 { u32::MAX as u64 } else { (1u64 << n) - 1 };
                    let want = CubeM::new((m & mask) as u32, (!m & mask) as u32);
                    ctx.check("minterm", CubeM::of(&c) == want, ev, "minterm", || format!("minterm({}, {:#x}) has literals {:?}", n, m, CubeM::of(&c)));
                    if n <= 12 {
                        let ok = (0..1u64 << n).all(|a| c.value(a as usize) == (a == (m & mask)));
                        ctx.check("minterm", ok, ev, "minterm-value", || format!("minterm({}, {:#x}) is not satisfied exactly by that assignment", n, m));
                    } else {
                        // the assignment itself and its one-bit neighbours inside the n variables
                        let target = m & mask;
                        let ok = c.value(target as usize) && (0..n).all(|v| !c.value((target ^ (1u64 << v)) as usize));
                        ctx.check("minterm", ok, ev, "minterm-value", || format!("minterm({}, {:#x}) is not satisfied exactly by that assignment (checked on it and its {} neighbours)", n, m, n));
                    }
                }
                Outcome::Panicked(msg) => ctx.violate("no-panic", ev, "minterm", format!("minterm({}, {:#x}) panicked: {}", n, m, msg)),
            }
        }
        "implies_lut" => {
            let m = cube_at(ev, 0);
            let mf = Model::from_blocks(n, &ev.tabs[0]);
            ctx.event(&format!("implies_lut|n={}", n), ev, !m.contradictory() && mf.is_const().is_none());
            let f = Lut::from_blocks(n, &ev.tabs[0]);
            let want = (0..1u64 << n).all(|a| m.contradictory() || !m.sat(a) || mf.bits[a as usize]);
            match guard(|| m.real_via(ev.digest()).implies_lut(&f)) {
                Outcome::Returned(got) => {
                    ctx.check("implies-lut", got == want, ev, "implies_lut", || format!("implies_lut = {} expected {} for cube ({:#x},{:#x}) f={:x}", got, want, m.pos, m.neg, ev.tabs[0][0]));
                }
                Outcome::Panicked(msg) => ctx.violate("no-panic", ev, "implies_lut", format!("implies_lut panicked: {}", msg)),
            }
        }
        "from_vars-list" => {
            // arbitrary variable lists: any order, repeated entries (x & x = x), ints = pos list, u64::MAX, neg list
            let cut = ev.ints.iter().position(|x| *x == u64::MAX).expect("harness: separator");
            let pv: Vec<usize> = ev.ints[..cut].iter().map(|x| *x as usize).collect();
            let nv: Vec<usize> = ev.ints[cut + 1..].iter().map(|x| *x as usize).collect();
            let want = CubeM::new(pv.iter().fold(0u32, |m, v| m | (1u32 << v)), nv.iter().fold(0u32, |m, v| m | (1u32 << v)));
            let repeated = {
                let mut a = pv.clone();
                a.sort();
                let mut b = nv.clone();
                b.sort();
                a.windows(2).any(|w| w[0] == w[1]) || b.windows(2).any(|w| w[0] == w[1])
            };
            ctx.event(&format!("from_vars-list|{}|{}", kind(&want), if repeated { "repeated-entries" } else { "distinct-entries" }), ev, !want.contradictory() && want.lits() > 0);
            match guard(|| Cube::from_vars(&pv, &nv)) {
                Outcome::Returned(c) => {
                    let expect = if want.contradictory() { Cube::zero() } else { want.real() };
                    ctx.check("constructors-agree", c == expect, ev, if repeated { "from_vars-repeated" } else { "from_vars-order" }, || {
                        format!("from_vars({:?}, {:?}) = {:?}, expected literals pos={:#x} neg={:#x}", pv, nv, CubeM::of(&c), want.pos, want.neg)
                    });
                }
                Outcome::Panicked(msg) => ctx.violate("no-panic", ev, "from_vars-list", format!("from_vars({:?}, {:?}) panicked: {}", pv, nv, msg)),
            }
        }
        "iter-script" => {
            // Iterator methods on Cube::all(n) / pos_vars() / neg_vars(): ints = pos, neg, which, 0, script pairs
            use vmon::iterprobe as ip;
            let m = cube_at(ev, 0);
            let which = ev.ints[2];
            let (_, script) = ip::ints_to_script(&ev.ints[3..]);
            let name = ["Cube::all", "pos_vars", "neg_vars"][which as usize];
            ctx.event(&format!("iter-script|{}", name), ev, true);
            for k in ip::script_kinds(&script) {
                ctx.cell_only(&format!("iter-method|{}|{}", k, name));
            }
            let r = guard(|| match which {
                0 => ip::check_seq_script(&|| Cube::all(n), &|c: &Cube| vec![CubeM::of(c).pos as u64 | ((CubeM::of(c).neg as u64) << 32)], &script),
                1 => {
                    let c = m.real();
                    ip::check_seq_script(&|| c.pos_vars(), &|v: &usize| vec![*v as u64], &script)
                }
                _ => {
                    let c = m.real();
                    ip::check_seq_script(&|| c.neg_vars(), &|v: &usize| vec![*v as u64], &script)
                }
            });
            match r {
                Outcome::Returned(Ok(k)) => ctx.checked("iter-methods-agree-with-sequence", k as u64),
                Outcome::Returned(Err((i, msg))) => ctx.violate("iter-methods-agree-with-sequence", ev, name, format!(
                    "{} (n={}, cube pos={:#x} neg={:#x}): step {} of script [{}]: {}", name, n, m.pos, m.neg, i, ip::describe_script(&script), msg)),
                Outcome::Panicked(msg) => ctx.violate("no-panic", ev, "iter-script", format!("{} script [{}] panicked: {}", name, ip::describe_script(&script), msg)),
            }
        }
        other => panic!("harness: unknown op {}", other),
    }
}

/// random cube over 32 variables with at most `k` literals
fn wide_cube(rng: &mut Rng, k: usize, allow_zero: bool) -> CubeM {
    let mut c = CubeM::new(0, 0);
    let lits = rng.below(k + 1);
    for _ in 0..lits {
        let v = match rng.below(6) {
            0 => 31,
            1 => 0,
            2 => rng.range(9, 19), // two-digit indices
            _ => rng.below(32),
        };
        if rng.bool() {
            c.pos |= 1 << v;
        } else {
            c.neg |= 1 << v;
        }
    }
    if !allow_zero && c.contradictory() {
        c.neg &= !c.pos;
    }
    c
}

fn main() {
    silence_panics();
    let cli = Cli::parse();
    let mut ctx = cli.ctx("C12");
    if let Some(ev) = cli.replay_event() {
        let mut rng = Rng::new(cli.seed);
        exec(&mut ctx, &ev, &mut rng);
        std::process::exit(vmon::ctx::report_replay(&ctx));
    }
    let thorough = ctx.thorough();
    let seed = cli.seed;
    // shards: ("small", n, chunk), ("lut", n, chunk), ("wide", 32, chunk)
    let mut shards: Vec<(&str, usize, usize, usize)> = Vec::new();
    for n in 0..=5usize {
        let chunks = if n == 5 { 8 } else { 1 };
        for c in 0..chunks {
            shards.push(("small", n, c, chunks));
        }
    }
    for n in 0..=if thorough { 4usize } else { 3 } {
        let chunks = if n == 4 { 16 } else { 1 };
        for c in 0..chunks {
            shards.push(("lut", n, c, chunks));
        }
    }
    for c in 0..16 {
        shards.push(("wide", 32, c, 16));
    }
    run_sharded(&mut ctx, cli.threads, shards.len(), |ctx, k| {
        let (kind_, n, c, chunks) = shards[k];
        let mut rng = Rng::new(seed ^ ((n as u64) << 8) ^ ((c as u64) << 16) ^ (kind_.len() as u64) << 24);
        match kind_ {
            "small" => {
                // every literal-mask pair, contradictory ones included (they must all be the zero cube)
                let mut cubes: Vec<CubeM> = Vec::new();
                for pos in 0..(1u32 << n) {
                    for neg in 0..(1u32 << n) {
                        cubes.push(CubeM::new(pos, neg));
                    }
                }
                if c == 0 {
                    for m in &cubes {
                        exec(ctx, &ev_cubes("single", n, &[*m]), &mut rng);
                    }
                    exec(ctx, &Ev::new("all", "Cube", n), &mut rng);
                    // the enumeration read through Iterator methods other than next()
                    for _ in 0..if thorough { 3000 } else { 150 } {
                        let len = 3usize.pow(n as u32);
                        let script = vmon::iterprobe::gen_seq_script(len, &mut rng);
                        let mut e = ev_cubes("iter-script", n, &[CubeM::new(0, 0)]);
                        e.ints.push(0);
                        e.ints.extend(vmon::iterprobe::script_to_ints(false, &script));
                        exec(ctx, &e, &mut rng);
                    }
                    for m in 0..(1u64 << n) {
                        exec(ctx, &Ev::new("minterm", "Cube", n).int64(m), &mut rng);
                        // garbage above n must be ignored
                        exec(ctx, &Ev::new("minterm", "Cube", n).int64(m | (rng.next_u64() << n)), &mut rng);
                    }
                }
                // pairs: all pairs of the 3^n cubes + the zero cube (one contradictory representative
                // per pair side is enough for & / implies / intersects; all representatives for n <= 3)
                let sat: Vec<CubeM> = cubes.iter().copied().filter(|m| !m.contradictory()).collect();
                let mut side: Vec<CubeM> = sat.clone();
                if n >= 1 {
                    if n <= 3 {
                        side = cubes.clone();
                    } else {
                        side.push(CubeM::new(1, 1));
                        side.push(CubeM::new((1 << n) - 1, 1 << (n - 1)));
                    }
                }
                for (i, a) in side.iter().enumerate() {
                    if i % chunks != c {
                        continue;
                    }
                    for b in &side {
                        exec(ctx, &ev_cubes("pair", n, &[*a, *b]), &mut rng);
                    }
                    for _ in 0..4 {
                        let q: Vec<CubeM> = (0..3).map(|_| *rng.pick(&side)).collect();
                        exec(ctx, &ev_cubes("chain", n, &[*a, q[0], q[1], q[2]]), &mut rng);
                    }
                }
                ctx.exhaustive.insert(format!("all cubes, all pairs, all assignments, n={}", n), true);
            }
            "lut" => {
                let count: u64 = 1u64 << (1u64 << n);
                let cubes = all_cubes(n);
                for x in 0..count {
                    if (x as usize) % chunks != c {
                        continue;
                    }
                    for m in &cubes {
                        exec(ctx, &ev_cubes("implies_lut", n, &[*m]).tab(&[x]), &mut rng);
                    }
                    exec(ctx, &ev_cubes("implies_lut", n, &[CubeM::new(1, 1)]).tab(&[x]), &mut rng);
                }
                ctx.exhaustive.insert(format!("implies_lut: all cubes x all functions, n={}", n), true);
            }
            _ => {
                let reps = if thorough { 400000 } else { 2000 };
                for _ in 0..reps {
                    let a = wide_cube(&mut rng, 6, true);
                    let b = if rng.chance(1, 4) {
                        // b built from a: sub-cube / super-cube / one literal opposed
                        let mut b = a;
                        match rng.below(3) {
                            0 => b.pos |= 1 << rng.below(32),
                            1 => {
                                let v = rng.below(32);
                                b.pos &= !(1u32 << v);
                                b.neg &= !(1u32 << v);
                            }
                            _ => {
                                if a.pos != 0 {
                                    let v = a.pos.trailing_zeros();
                                    b.pos &= !(1u32 << v);
                                    b.neg |= 1 << v;
                                }
                            }
                        }
                        b
                    } else {
                        wide_cube(&mut rng, 6, true)
                    };
                    if (a.support() | b.support()).count_ones() > 12 {
                        continue;
                    }
                    // dense cubes (up to all 32 variables) and related partners: the same cube, one literal
                    // flipped / dropped / added, the literals split in two halves, opposite polarity everywhere
                    let dpos = rng.next_u64() as u32 & if rng.bool() { u32::MAX } else { rng.next_u64() as u32 };
                    let dneg = rng.next_u64() as u32 & !dpos & if rng.bool() { u32::MAX } else { rng.next_u64() as u32 };
                    let d = CubeM::new(dpos, dneg);
                    exec(ctx, &ev_cubes("single", 32, &[d]), &mut rng);
                    // cubes over all 32 variables (32 literals), and with one or two variables missing
                    {
                        let x = rng.next_u64() as u32;
                        let full = CubeM::new(x, !x);
                        let v1 = 1u32 << rng.below(32);
                        let v2 = 1u32 << rng.below(32);
                        // a full-width minterm split into two compatible parts, neither implying the other: by
                        // polarity (all positive literals | all negative literals), by halves, at random
                        for (p1, p2) in [
                            (CubeM::new(x, 0), CubeM::new(0, !x)),
                            (CubeM::new(x & 0xffff, !x & 0xffff), CubeM::new(x & 0xffff_0000, !x & 0xffff_0000)),
                            (CubeM::new(x & v2.wrapping_sub(1), !x & !v2.wrapping_sub(1)), CubeM::new(x & !v2.wrapping_sub(1), !x & v2.wrapping_sub(1))),
                        ] {
                            exec(ctx, &ev_cubes("pair", 32, &[p1, p2]), &mut rng);
                            exec(ctx, &ev_cubes("pair", 32, &[p2, p1]), &mut rng);
                        }
                        for cb in [full, CubeM::new(x & !v1, !x & !v1), CubeM::new(x & !v1 & !v2, !x & !v1 & !v2), CubeM::new(u32::MAX & !v1, 0), CubeM::new(0, u32::MAX)] {
                            exec(ctx, &ev_cubes("single", 32, &[cb]), &mut rng);
                            exec(ctx, &ev_cubes("pair", 32, &[cb, full]), &mut rng);
                            // the constants against the widest cubes, both ways round: the empty cube (one
                            // conflicting variable, many, all of them) and the cube without literals
                            for k in [CubeM::new(v1, v1), CubeM::new(x | v1, !x | v1), CubeM::new(u32::MAX, u32::MAX), CubeM::new(0, 0)].into_iter().take(if cb == full { 4 } else { 1 }) {
                                exec(ctx, &ev_cubes("pair", 32, &[k, cb]), &mut rng);
                                exec(ctx, &ev_cubes("pair", 32, &[cb, k]), &mut rng);
                            }
                        }
                    }
                    let v = 1u32 << rng.below(32);
                    let partners = [
                        d,
                        CubeM::new(d.pos & !v, d.neg & !v),
                        CubeM::new(d.pos | (v & !d.neg), d.neg),
                        CubeM::new((d.pos & !v) | (d.neg & v), (d.neg & !v) | (d.pos & v)),
                        CubeM::new(d.neg, d.pos),
                        CubeM::new(d.pos & 0xffff, d.neg & 0xffff),
                        CubeM::new(d.pos & 0xffff_0000, d.neg & 0xffff_0000),
                        CubeM::new(d.pos | v, d.neg | v),
                    ];
                    for o in partners {
                        exec(ctx, &ev_cubes("pair", 32, &[d, o]), &mut rng);
                        exec(ctx, &ev_cubes("pair", 32, &[o, d]), &mut rng);
                    }
                    exec(ctx, &ev_cubes("single", 32, &[a]), &mut rng);
                    exec(ctx, &ev_cubes("pair", 32, &[a, b]), &mut rng);
                    // variable lists in arbitrary order with repeated entries
                    {
                        let src = if rng.bool() { d } else { a };
                        let mut pv: Vec<u64> = (0..32u64).filter(|v| (src.pos >> v) & 1 == 1).collect();
                        let mut nv: Vec<u64> = (0..32u64).filter(|v| (src.neg >> v) & 1 == 1).collect();
                        for l in [&mut pv, &mut nv] {
                            for _ in 0..rng.below(4) {
                                if !l.is_empty() {
                                    let x = *rng.pick(l);
                                    l.push(x);
                                }
                            }
                            if rng.chance(1, 6) {
                                l.push(rng.below(32) as u64);
                            }
                            rng.shuffle(l);
                        }
                        let mut e = Ev::new("from_vars-list", "Cube", 32);
                        e.ints = pv;
                        e.ints.push(u64::MAX);
                        e.ints.extend(nv);
                        exec(ctx, &e, &mut rng);
                    }
                    // Iterator methods on the variable lists of a cube
                    if rng.chance(1, 4) {
                        let src = if rng.bool() { d } else { a };
                        if !src.contradictory() {
                            let which = 1 + rng.below(2) as u64;
                            let len = if which == 1 { src.pos.count_ones() } else { src.neg.count_ones() } as usize;
                            let script = vmon::iterprobe::gen_seq_script(len, &mut rng);
                            let mut e = ev_cubes("iter-script", 32, &[src]);
                            e.ints.push(which);
                            e.ints.extend(vmon::iterprobe::script_to_ints(false, &script));
                            exec(ctx, &e, &mut rng);
                        }
                    }
                    let c3 = wide_cube(&mut rng, 3, true);
                    let c4 = wide_cube(&mut rng, 3, true);
                    exec(ctx, &ev_cubes("chain", 32, &[a, b, c3, c4]), &mut rng);
                }
                for nn in [6usize, 7, 12, 16, 20, 31, 32] {
                    for _ in 0..20 {
                        exec(ctx, &Ev::new("minterm", "Cube", nn).int64(rng.next_u64() & ((1u64 << nn) - 1)), &mut rng);
                    }
                    exec(ctx, &Ev::new("minterm", "Cube", nn).int64(0), &mut rng);
                    exec(ctx, &Ev::new("minterm", "Cube", nn).int64((1u64 << nn) - 1), &mut rng);
                }
                if c == 0 {
                    for nn in 6..=if thorough { 9usize } else { 7 } {
                        exec(ctx, &Ev::new("all", "Cube", nn), &mut rng);
                    }
                }
            }
        }
    });
    // hidden-state monitor: sampled events of all shards again, mixed, on one thread (ctx::run_mix)
    {
        let mut rng = Rng::new(seed ^ 0x316d);
        run_mix(&mut ctx, seed, |c, e| exec(c, e, &mut rng));
    }
    // and concurrently: the same sample on several threads at once (shared state inside the library)
    run_mix_concurrent(&mut ctx, seed, cli.threads, |c, e| {
        let mut rng = Rng::new(e.digest());
        exec(c, e, &mut rng)
    });
    let mut required: Vec<String> = Vec::new();
    for size in ["small", "wide"] {
        for a in ["zero", "one", "literal", "multi"] {
            required.push(format!("single|{}|{}", a, size));
            for b in ["zero", "one", "literal", "multi"] {
                required.push(format!("pair|{}&{}|{}", a, b, size));
            }
        }
    }
    required.push("chain|((a&b)&c)&d".into());
    for n in 0..=5 {
        required.push(format!("all|n={}", n));
        required.push(format!("minterm|n={}", n));
    }
    for name in ["Cube::all", "pos_vars", "neg_vars"] {
        required.push(format!("iter-script|{}", name));
        for k in ["nth", "skip.next", "step_by.take3", "take.count", "count", "last", "size_hint"] {
            required.push(format!("iter-method|{}|{}", k, name));
        }
    }
    required.push("from_vars-list|multi|repeated-entries".into());
    required.push("from_vars-list|multi|distinct-entries".into());
    required.push("minterm|n=31".into());
    required.push("minterm|n=32".into());
    for n in 0..=3 {
        required.push(format!("implies_lut|n={}", n));
    }
    cli.finish(&ctx, &required, RULE);
}
