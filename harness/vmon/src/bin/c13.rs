//! C13 — Ecube (XOR term) and Soes (OR of XOR terms) semantics (DESIGN.md section 3, C13).

use volute::sop::{Ecube, Soes};
use volute::Lut;

use vmon::twolevel::{or_esets, EcubeM};
use vmon::*;

const RULE: &str = "events: esingle = one exclusive cube (constructors, value on every assignment, counts, vars); \
epair = two exclusive cubes (four ^ forms, two ! forms, == vs semantic equality); eall = Ecube::all(n); \
eimplies = implies_lut against one function; soes = one list of exclusive cubes (value, Lut::from both forms, \
is_zero/is_one) and soes-or = two lists (four | forms). Exhaustive for n<=5 (ecubes, pairs, assignments), Soes \
lists of length <=3 over n<=3 exhaustive (<=2 in quick) and length 4 over n<=4 sampled, random to n=8 and \
random ecubes over 32 variables. non-trivial = at least one term with >= 1 variable; distinct = distinct (op, n, terms)";

fn em(vars: u32, xnor: bool) -> EcubeM {
    EcubeM { vars, xnor }
}

fn ev_e(op: &str, n: usize, cs: &[EcubeM]) -> Ev {
    let mut ev = Ev::new(op, "Ecube", n);
    for c in cs {
        ev = ev.int64(c.vars as u64).int64(c.xnor as u64);
    }
    ev
}

fn e_at(ev: &Ev, k: usize) -> EcubeM {
    em(ev.ints[2 * k] as u32, ev.ints[2 * k + 1] == 1)
}

fn assignments(n: usize, support: u32, rng: &mut Rng) -> Vec<u64> {
    let boundary = [0u64, 0xffff_ffff, u64::MAX, 0x5555_5555, 0xaaaa_aaaa, 0x8000_0000, 0x7fff_ffff, 1, 0xffff_0000, 0x0000_ffff];
    if n <= 12 {
        let mut v: Vec<u64> = (0..1u64 << n).collect();
        v.extend(boundary);
        return v;
    }
    let vars: Vec<u32> = (0..32).filter(|v| (support >> v) & 1 == 1).collect();
    if vars.len() > 12 {
        // dense terms: the support cannot be enumerated; parity is linear, so the unit vectors of the support,
        // random assignments and the boundary patterns decide it (a parity term is determined by its values
        // on 0 and on the unit vectors)
        let mut out: Vec<u64> = boundary.to_vec();
        for v in &vars {
            out.push(1u64 << v);
        }
        for _ in 0..256 {
            out.push(rng.next_u64() & 0xffff_ffff);
        }
        return out;
    }
    let mut out = Vec::new();
    for s in 0..(1u64 << vars.len()) {
        let mut m = rng.next_u64() & 0xffff_ffff & !(support as u64);
        for (k, v) in vars.iter().enumerate() {
            if (s >> k) & 1 == 1 {
                m |= 1u64 << v;
            }
        }
        out.push(m);
    }
    out
}

fn size_class(n: usize) -> &'static str {
    if n > 12 {
        "wide"
    } else {
        "small"
    }
}

fn exec(ctx: &mut Ctx, ev: &Ev, rng: &mut Rng) {
    let n = ev.n;
    match ev.op.as_str() {
        "esingle" => {
            let m = e_at(ev, 0);
            ctx.event(&format!("esingle|{}|{}", if m.vars == 0 { "constant" } else { "term" }, size_class(n)), ev, m.vars != 0);
            let r = guard(|| {
                let c = m.real();
                (c, c.is_zero(), c.is_one(), c.num_lits(), c.num_gates(), c.vars().collect::<Vec<usize>>())
            });
            let (c, isz, iso, lits, gates, vs) = match r {
                Outcome::Returned(x) => x,
                Outcome::Panicked(msg) => {
                    ctx.violate("no-panic", ev, "esingle", format!("exclusive cube construction panicked: {}", msg));
                    return;
                }
            };
            let k = m.vars.count_ones() as usize;
            ctx.check("e-predicates", isz == (m.vars == 0 && !m.xnor) && iso == (m.vars == 0 && m.xnor), ev, "is_*", || format!("is_zero={} is_one={} for vars={:#x} xnor={}", isz, iso, m.vars, m.xnor));
            ctx.check("e-counts", lits == k && gates == std::cmp::max(k, 1) - 1, ev, "counts", || format!("num_lits={} num_gates={} for vars={:#x}", lits, gates, m.vars));
            let want_vs: Vec<usize> = (0..32).filter(|v| (m.vars >> v) & 1 == 1).collect();
            ctx.check("e-accessors", vs == want_vs, ev, "vars", || format!("vars() gives {:?} for {:#x}", vs, m.vars));
            if k == 1 {
                let v = m.vars.trailing_zeros() as usize;
                let l = if m.xnor { Ecube::nth_var_inv(v) } else { Ecube::nth_var(v) };
                ctx.check("e-constructors-agree", l == c, ev, "nth_var", || "nth_var / nth_var_inv differ from from_vars".into());
            }
            if k == 0 {
                let l = if m.xnor { Ecube::one() } else { Ecube::zero() };
                ctx.check("e-constructors-agree", l == c, ev, "const", || "one()/zero() differ from from_vars".into());
            }
            // the variable list in another order, and with an entry repeated: a repeated variable can only mean
            // the set {x} (listed twice) or x ^ x (it cancels); anything else is not "the parity of its variables"
            if k >= 1 {
                let mut vs: Vec<usize> = want_vs.clone();
                rng.shuffle(&mut vs);
                let dup = vs[rng.below(vs.len())];
                let mut with_dup = vs.clone();
                with_dup.insert(rng.below(vs.len() + 1), dup);
                match guard(|| (Ecube::from_vars(&vs, m.xnor), Ecube::from_vars(&with_dup, m.xnor))) {
                    Outcome::Returned((shuffled, repeated)) => {
                        ctx.check("e-constructors-agree", shuffled == c, ev, "from_vars-order", || format!("from_vars({:?}) differs from from_vars of the sorted list", vs));
                        let cancelled = em(m.vars & !(1u32 << dup), m.xnor).real();
                        ctx.check("e-constructors-agree", repeated == c || repeated == cancelled, ev, "from_vars-repeated", || {
                            format!("from_vars({:?}, {}) = {:?} is neither the term over the listed set nor the term with the repeated variable cancelled", with_dup, m.xnor, EcubeM::of(&repeated))
                        });
                    }
                    Outcome::Panicked(msg) => ctx.violate("no-panic", ev, "from_vars-list", format!("from_vars({:?}) panicked: {}", with_dup, msg)),
                }
            }
            let asg = assignments(n, m.vars, rng);
            match guard(|| asg.iter().map(|a| c.value(*a as usize)).collect::<Vec<bool>>()) {
                Outcome::Returned(vals) => {
                    let bad = asg.iter().zip(vals.iter()).find(|(a, v)| m.sat(**a) != **v);
                    ctx.checked("e-value-parity", asg.len() as u64);
                    ctx.check("e-value-parity", bad.is_none(), ev, "value", || {
                        let (a, v) = bad.unwrap();
                        format!("value({:#x}) = {} for vars={:#x} xnor={}", a, v, m.vars, m.xnor)
                    });
                }
                Outcome::Panicked(msg) => ctx.violate("no-panic", ev, "value", format!("value panicked: {}", msg)),
            }
        }
        "epair" => {
            let (ma, mb) = (e_at(ev, 0), e_at(ev, 1));
            ctx.event(&format!("epair|{}", size_class(n)), ev, ma.vars != 0 && mb.vars != 0);
            let r = guard(|| {
                let d = ev.digest();
                let a = ma.real_via(d);
                let b = mb.real_via(d.rotate_left(29));
                ([a ^ b, &a ^ b, &a ^ &b, a ^ &b], [!a, !&a], a == b, a, b)
            });
            let (xors, nots, eq, ra, rb) = match r {
                Outcome::Returned(x) => x,
                Outcome::Panicked(msg) => {
                    ctx.violate("no-panic", ev, "epair", format!("exclusive cube operation panicked: {}", msg));
                    return;
                }
            };
            let asg = assignments(n, ma.vars | mb.vars, rng);
            ctx.check("e-forms-agree", xors.iter().all(|c| *c == xors[0]) && nots[0] == nots[1], ev, "forms", || "the ^ / ! forms disagree".into());
            let x = xors[0];
            let nt = nots[0];
            let ok_x = asg.iter().all(|m| x.value(*m as usize) == (ma.sat(*m) != mb.sat(*m)));
            let ok_n = asg.iter().all(|m| nt.value(*m as usize) == !ma.sat(*m));
            ctx.checked("e-xor-semantic", asg.len() as u64);
            ctx.check("e-xor-semantic", ok_x, ev, "xor", || format!("(a ^ b).value differs from a.value ^ b.value for a=({:#x},{}) b=({:#x},{})", ma.vars, ma.xnor, mb.vars, mb.xnor));
            ctx.check("e-not-semantic", ok_n, ev, "not", || format!("(!a).value differs from !a.value for a=({:#x},{})", ma.vars, ma.xnor));
            // two parity terms are the same function iff they have the same variables and polarity
            let same = ma.vars == mb.vars && ma.xnor == mb.xnor;
            debug_assert!(!same || asg.iter().all(|m| ma.sat(*m) == mb.sat(*m)));
            ctx.check("e-eq-semantic", eq == same, ev, "eq", || format!("a == b is {} but semantic equality is {} for a=({:#x},{}) b=({:#x},{})", eq, same, ma.vars, ma.xnor, mb.vars, mb.xnor));
            match guard(|| vmon::obs::eq_ord_hash_routes(&ra, &rb, same)) {
                Outcome::Returned(Ok(k)) => ctx.checked("e-eq-routes-agree", k as u64),
                Outcome::Returned(Err(route)) => ctx.violate("e-eq-routes-agree", ev, route, format!(
                    "route `{}` disagrees with semantic equality ({}) for a=({:#x},{}) b=({:#x},{})", route, same, ma.vars, ma.xnor, mb.vars, mb.xnor)),
                Outcome::Panicked(msg) => ctx.violate("no-panic", ev, "eq-routes", format!("comparison / hashing panicked: {}", msg)),
            }
        }
        "eall" => {
            ctx.event(&format!("eall|n={}", n), ev, true);
            match guard(|| Ecube::all(n).collect::<Vec<Ecube>>()) {
                Outcome::Returned(v) => {
                    let mut got: Vec<EcubeM> = v.iter().map(EcubeM::of).collect();
                    let len = got.len();
                    got.sort();
                    got.dedup();
                    let in_range = got.iter().all(|e| (e.vars as u64) < (1u64 << n));
                    // distinct as functions
                    let mut fns: Vec<Vec<bool>> = v.iter().map(|c| (0..1usize << n).map(|m| c.value(m)).collect()).collect();
                    fns.sort();
                    fns.dedup();
                    ctx.check("e-enumeration", len == (2usize << n) && got.len() == len && in_range && fns.len() == len, ev, "all", || {
                        format!("Ecube::all({}) yields {} terms, {} distinct, {} distinct functions; expected {}", n, len, got.len(), fns.len(), 2usize << n)
                    });
                }
                Outcome::Panicked(msg) => ctx.violate("no-panic", ev, "all", format!("Ecube::all panicked: {}", msg)),
            }
        }
        "eiter-script" => {
            // Iterator methods on Ecube::all(n) / vars(): ints = vars, xnor, which, 0, script pairs
            use vmon::iterprobe as ip;
            let m = e_at(ev, 0);
            let which = ev.ints[2];
            let (_, script) = ip::ints_to_script(&ev.ints[3..]);
            let name = ["Ecube::all", "vars"][which as usize];
            ctx.event(&format!("iter-script|{}", name), ev, true);
            for k in ip::script_kinds(&script) {
                ctx.cell_only(&format!("iter-method|{}|{}", k, name));
            }
            let r = guard(|| match which {
                0 => ip::check_seq_script(&|| Ecube::all(n), &|c: &Ecube| vec![EcubeM::of(c).vars as u64 | ((EcubeM::of(c).xnor as u64) << 32)], &script),
                _ => {
                    let c = m.real();
                    ip::check_seq_script(&|| c.vars(), &|v: &usize| vec![*v as u64], &script)
                }
            });
            match r {
                Outcome::Returned(Ok(k)) => ctx.checked("iter-methods-agree-with-sequence", k as u64),
                Outcome::Returned(Err((i, msg))) => ctx.violate("iter-methods-agree-with-sequence", ev, name, format!(
                    "{} (n={}, term vars={:#x} xnor={}): step {} of script [{}]: {}", name, n, m.vars, m.xnor, i, ip::describe_script(&script), msg)),
                Outcome::Panicked(msg) => ctx.violate("no-panic", ev, "iter-script", format!("{} script [{}] panicked: {}", name, ip::describe_script(&script), msg)),
            }
        }
        "eimplies" => {
            let m = e_at(ev, 0);
            let mf = Model::from_blocks(n, &ev.tabs[0]);
            ctx.event(&format!("eimplies|n={}", n), ev, m.vars != 0 && mf.is_const().is_none());
            let f = Lut::from_blocks(n, &ev.tabs[0]);
            let want = (0..1u64 << n).all(|a| !m.sat(a) || mf.bits[a as usize]);
            match guard(|| m.real_via(ev.digest()).implies_lut(&f)) {
                Outcome::Returned(got) => {
                    ctx.check("e-implies-lut", got == want, ev, "implies_lut", || format!("implies_lut = {} expected {} for ({:#x},{}) f={:x}", got, want, m.vars, m.xnor, ev.tabs[0][0]));
                }
                Outcome::Panicked(msg) => ctx.violate("no-panic", ev, "implies_lut", format!("implies_lut panicked: {}", msg)),
            }
        }
        "soes" => {
            // ints: [split, (vars, xnor)*]; the first `split` terms form a, the rest b
            let split = ev.ints[0] as usize;
            let terms: Vec<EcubeM> = (0..(ev.ints.len() - 1) / 2).map(|k| em(ev.ints[1 + 2 * k] as u32, ev.ints[2 + 2 * k] == 1)).collect();
            let (ta, tb) = terms.split_at(split);
            ctx.event(&format!("soes|len={}+{}|n={}", ta.len(), tb.len(), n), ev, terms.iter().any(|t| t.vars != 0));
            let r = guard(|| {
                let d = ev.digest();
                let a = Soes::from_cubes(n, ta.iter().enumerate().map(|(k, t)| t.real_via(d.rotate_left(7 * k as u32))).collect());
                let b = Soes::from_cubes(n, tb.iter().map(|t| t.real()).collect());
                let ors = [&a | &b, &a | b.clone(), a.clone() | &b, a.clone() | b.clone()];
                let vals: Vec<bool> = (0..1usize << n).map(|m| a.value(m)).collect();
                let l1 = Lut::from(&a);
                let l2 = Lut::from(a.clone());
                // Clone routes: destinations of the same and of other arities, with smaller and larger term lists
                let big: Vec<Ecube> = (0..ta.len() + tb.len() + 3).map(|k| Ecube::from_vars(&[k % (n + 2)], k % 2 == 0)).collect();
                let dsts = vec![b.clone(), Soes::zero(n + 1), Soes::one(n + 2), Soes::from_cubes(n + 2, big.clone()), Soes::from_cubes(n + 3, big), Soes::zero(0)];
                let routes = vmon::obs::clone_routes(&a, &dsts, &|x: &Soes, y: &Soes| {
                    x.num_vars() == y.num_vars() && x.cubes() == y.cubes() && Lut::from(x) == Lut::from(y)
                });
                (a.is_zero(), a.is_one(), a.num_cubes(), a.num_vars(), vals, l1, l2, ors, routes)
            });
            let (isz, iso, nc, nvars, vals, l1, l2, ors, routes) = match r {
                Outcome::Returned(x) => x,
                Outcome::Panicked(msg) => {
                    ctx.violate("no-panic", ev, "soes", format!("Soes operation panicked: {}", msg));
                    return;
                }
            };
            match routes {
                Ok(k) => ctx.checked("soes-clone-routes", k as u64),
                Err(route) => ctx.violate("soes-clone-routes", ev, "clone", format!("{} does not give a Soes equal to the source {:?} (n={})", route, ta, n)),
            }
            let fa = or_esets(n, ta);
            let fb = or_esets(n, tb);
            ctx.check("soes-value-or", vals == fa, ev, "value", || format!("Soes::value differs from the OR of its terms {:?}", ta));
            ctx.check("soes-shape", nc == ta.len() && nvars == n, ev, "shape", || "num_cubes/num_vars wrong".into());
            let lm = Model { n, bits: fa.clone() };
            ctx.check("soes-to-lut", Model::from_blocks(n, l1.blocks()) == lm && l1 == l2 && l1.num_vars() == n && vmon::obs::well_formed(n, l1.blocks()).is_ok(), ev, "lut", || format!("Lut::from(&soes) = {} differs from the tabulated OR {:?}", l1, ta));
            ctx.check("soes-is-zero-sound", !isz || fa.iter().all(|b| !*b), ev, "is_zero", || "is_zero holds for a Soes that is not constant zero".into());
            ctx.check("soes-is-one-sound", !iso || fa.iter().all(|b| *b), ev, "is_one", || "is_one holds for a Soes that is not constant one".into());
            let want_or: Vec<bool> = fa.iter().zip(fb.iter()).map(|(x, y)| *x || *y).collect();
            for (k, o) in ors.iter().enumerate() {
                let got: Vec<bool> = (0..1usize << n).map(|m| o.value(m)).collect();
                ctx.check("soes-or-semantic", got == want_or && o.num_vars() == n, ev, &format!("or-form-{}", k), || format!("form {} of a | b does not denote the OR", k));
                ctx.check("soes-is-zero-sound", !o.is_zero() || want_or.iter().all(|b| !*b), ev, "or-is_zero", || "is_zero holds for a non-zero a | b".into());
                ctx.check("soes-is-one-sound", !o.is_one() || want_or.iter().all(|b| *b), ev, "or-is_one", || "is_one holds for a non-one a | b".into());
            }
            ctx.check("soes-forms-agree", ors.iter().all(|o| *o == ors[0]), ev, "or-forms", || "the four | forms differ".into());
        }
        "soes-ctor" => {
            // values built by the named constructors; their meaning is read back through cubes()
            let v = ev.i(0);
            ctx.event(&format!("soes-ctor|n={}", n), ev, true);
            let r = guard(|| {
                let list = vec![Soes::zero(n), Soes::one(n), Soes::nth_var(n, v), Soes::nth_var_inv(n, v)];
                let mut out = Vec::new();
                for s in &list {
                    let terms: Vec<EcubeM> = s.cubes().iter().map(EcubeM::of).collect();
                    let vals: Vec<bool> = (0..1usize << n).map(|m| s.value(m)).collect();
                    let l = Lut::from(s);
                    let o = s | &list[2];
                    let ovals: Vec<bool> = (0..1usize << n).map(|m| o.value(m)).collect();
                    out.push((terms, vals, l, s.is_zero(), s.is_one(), s.num_cubes(), s.num_lits(), ovals));
                }
                out
            });
            match r {
                Outcome::Returned(out) => {
                    let x: Vec<bool> = out[2].1.clone();
                    for (k, (terms, vals, l, isz, iso, nc, nl, ovals)) in out.iter().enumerate() {
                        let want = or_esets(n, terms);
                        let key = ["zero", "one", "nth_var", "nth_var_inv"][k];
                        ctx.check("soes-value-or", *vals == want && *nc == terms.len() && *nl == terms.iter().map(|t| t.vars.count_ones() as usize).sum::<usize>(), ev, key, || format!("Soes::{} does not evaluate to the OR of its terms", key));
                        ctx.check("soes-to-lut", Model::from_blocks(n, l.blocks()).bits == want, ev, key, || format!("Lut::from(&Soes::{}) is not the tabulated OR", key));
                        ctx.check("soes-is-zero-sound", !*isz || want.iter().all(|b| !*b), ev, key, || "is_zero on a non-zero Soes".into());
                        ctx.check("soes-is-one-sound", !*iso || want.iter().all(|b| *b), ev, key, || "is_one on a non-one Soes".into());
                        let wo: Vec<bool> = want.iter().zip(x.iter()).map(|(a, b)| *a || *b).collect();
                        ctx.check("soes-or-semantic", *ovals == wo, ev, key, || format!("Soes::{} | nth_var does not denote the OR", key));
                    }
                }
                Outcome::Panicked(msg) => ctx.violate("no-panic", ev, "soes-ctor", format!("Soes constructor panicked: {}", msg)),
            }
        }
        other => panic!("harness: unknown op {}", other),
    }
}

fn soes_ev(n: usize, a: &[EcubeM], b: &[EcubeM]) -> Ev {
    let mut ev = Ev::new("soes", "Soes", n).int(a.len());
    for t in a.iter().chain(b.iter()) {
        ev = ev.int64(t.vars as u64).int64(t.xnor as u64);
    }
    ev
}

fn all_e(n: usize) -> Vec<EcubeM> {
    let mut v = Vec::new();
    for vars in 0..(1u32 << n) {
        for x in [false, true] {
            v.push(em(vars, x));
        }
    }
    v
}

fn main() {
    silence_panics();
    let cli = Cli::parse();
    let mut ctx = cli.ctx("C13");
    if let Some(ev) = cli.replay_event() {
        let mut rng = Rng::new(cli.seed);
        exec(&mut ctx, &ev, &mut rng);
        std::process::exit(vmon::ctx::report_replay(&ctx));
    }
    let thorough = ctx.thorough();
    let seed = cli.seed;
    let mut shards: Vec<(&str, usize, usize, usize)> = Vec::new();
    for n in 0..=5usize {
        shards.push(("ecube", n, 0, 1));
    }
    for n in 0..=4usize {
        let chunks = if n >= 3 { 8 } else { 1 };
        for c in 0..chunks {
            shards.push(("soes", n, c, chunks));
        }
    }
    for c in 0..8 {
        shards.push(("random", 8, c, 8));
    }
    run_sharded(&mut ctx, cli.threads, shards.len(), |ctx, k| {
        let (kind, n, c, chunks) = shards[k];
        let mut rng = Rng::new(seed ^ ((n as u64) << 12) ^ ((c as u64) << 20) ^ ((kind.len() as u64) << 28));
        match kind {
            "ecube" => {
                let all = all_e(n);
                for a in &all {
                    exec(ctx, &ev_e("esingle", n, &[*a]), &mut rng);
                    for b in &all {
                        exec(ctx, &ev_e("epair", n, &[*a, *b]), &mut rng);
                    }
                }
                exec(ctx, &Ev::new("eall", "Ecube", n), &mut rng);
                // the enumeration and the variable lists read through Iterator methods other than next()
                for r in 0..if thorough { 3000 } else { 200 } {
                    let which = (r % 4 == 3) as u64;
                    let src = if all.is_empty() { em(0, false) } else { *rng.pick(&all) };
                    let len = if which == 0 { 2usize << n } else { src.vars.count_ones() as usize };
                    let script = vmon::iterprobe::gen_seq_script(len, &mut rng);
                    let mut e = ev_e("eiter-script", n, &[src]);
                    e.ints.push(which);
                    e.ints.extend(vmon::iterprobe::script_to_ints(false, &script));
                    exec(ctx, &e, &mut rng);
                }
                for v in 0..n {
                    exec(ctx, &Ev::new("soes-ctor", "Soes", n).int(v), &mut rng);
                }
                if n <= if thorough { 4 } else { 3 } {
                    let count: u64 = 1u64 << (1u64 << n);
                    for x in 0..count {
                        if n == 4 && x % 8 != 0 && !thorough {
                            continue;
                        }
                        for a in &all {
                            exec(ctx, &ev_e("eimplies", n, &[*a]).tab(&[x]), &mut rng);
                        }
                    }
                }
                ctx.exhaustive.insert(format!("all exclusive cubes, all pairs, all assignments, n={}", n), true);
            }
            "soes" => {
                let all = all_e(n);
                let max_exh = if thorough { 3 } else { 2 };
                // all lists of length <= max_exh for n <= 3 (as the left operand, right operand sampled)
                if n <= 3 {
                    let mut idx = 0usize;
                    for len in 0..=max_exh {
                        let total = all.len().pow(len as u32);
                        for code in 0..total {
                            idx += 1;
                            if idx % chunks != c {
                                continue;
                            }
                            let mut list = Vec::new();
                            let mut k2 = code;
                            for _ in 0..len {
                                list.push(all[k2 % all.len()]);
                                k2 /= all.len();
                            }
                            let blen = rng.below(3);
                            let b: Vec<EcubeM> = (0..blen).map(|_| *rng.pick(&all)).collect();
                            exec(ctx, &soes_ev(n, &list, &b), &mut rng);
                        }
                    }
                    ctx.exhaustive.insert(format!("all Soes term lists of length <= {}, n={}", max_exh, n), true);
                }
                // sampled lists of length 3..4 over n <= 4
                let reps = if thorough { 300000 } else { 2000 };
                for _ in 0..reps {
                    let la = rng.range(0, 4);
                    let lb = rng.range(0, 4);
                    let a: Vec<EcubeM> = (0..la).map(|_| *rng.pick(&all)).collect();
                    let b: Vec<EcubeM> = (0..lb).map(|_| *rng.pick(&all)).collect();
                    exec(ctx, &soes_ev(n, &a, &b), &mut rng);
                }
            }
            _ => {
                // long term lists (thresholds of buffers, batches, sort/dedup passes): 40..600 terms over 6..10
                // variables, with repeated terms, in random / sorted / reverse-sorted order
                for r in 0..if thorough { 400 } else { 12 } {
                    let nn = rng.range(6, 10);
                    let mk = |rng: &mut Rng| em((rng.next_u64() & ((1u64 << nn) - 1)) as u32, rng.bool());
                    let la = *rng.pick(&[40usize, 64, 65, 128, 257, 600]);
                    let lb = *rng.pick(&[0usize, 1, 63, 64, 300]);
                    let mut a: Vec<EcubeM> = (0..la).map(|_| mk(&mut rng)).collect();
                    let mut b: Vec<EcubeM> = (0..lb).map(|_| if rng.chance(1, 3) { *rng.pick(&a) } else { mk(&mut rng) }).collect();
                    match r % 3 {
                        0 => {
                            a.sort_by(|x, y| x.real().cmp(&y.real()));
                            b.sort_by(|x, y| x.real().cmp(&y.real()));
                        }
                        1 => {
                            a.sort_by(|x, y| y.real().cmp(&x.real()));
                        }
                        _ => {}
                    }
                    ctx.cell_only("soes-long-lists");
                    exec(ctx, &soes_ev(nn, &a, &b), &mut rng);
                }
                let reps = if thorough { 120000 } else { 600 };
                for _ in 0..reps {
                    // random Soes up to n = 8
                    let nn = rng.range(5, 8);
                    let mk = |rng: &mut Rng| em((rng.next_u64() & ((1u64 << nn) - 1)) as u32 & (rng.next_u64() as u32 | rng.next_u64() as u32), rng.bool());
                    let la = rng.range(0, 6);
                    let lb = rng.range(0, 6);
                    let a: Vec<EcubeM> = (0..la).map(|_| mk(&mut rng)).collect();
                    let b: Vec<EcubeM> = (0..lb).map(|_| mk(&mut rng)).collect();
                    exec(ctx, &soes_ev(nn, &a, &b), &mut rng);
                    // random exclusive cubes over 32 variables with small support
                    let wide = |rng: &mut Rng| {
                        let mut v = 0u32;
                        for _ in 0..rng.below(6) {
                            v |= 1 << match rng.below(4) {
                                0 => 31,
                                1 => rng.range(10, 19),
                                _ => rng.below(32),
                            };
                        }
                        em(v, rng.bool())
                    };
                    let (x, y) = (wide(&mut rng), wide(&mut rng));
                    exec(ctx, &ev_e("esingle", 32, &[x]), &mut rng);
                    exec(ctx, &ev_e("epair", 32, &[x, y]), &mut rng);
                    // dense terms over all 32 variables and pairs related through the algebra: the other term is
                    // the same, the complement, the term with the complementary support (either polarity), one
                    // variable more or less, the XOR with the parity of all variables
                    let d = em(match rng.below(4) {
                        0 => rng.next_u64() as u32,
                        1 => {
                            // exactly 16 variables
                            let mut vs: Vec<u32> = (0..32).collect();
                            rng.shuffle(&mut vs);
                            vs.iter().take(16).fold(0u32, |a, v| a | (1 << v))
                        }
                        2 => !(1u32 << rng.below(32)),
                        _ => (rng.next_u64() as u32) | (rng.next_u64() as u32),
                    }, rng.bool());
                    exec(ctx, &ev_e("esingle", 32, &[d]), &mut rng);
                    let one_var = 1u32 << rng.below(32);
                    for o in [
                        d,
                        em(d.vars, !d.xnor),
                        em(!d.vars, d.xnor),
                        em(!d.vars, !d.xnor),
                        em(d.vars ^ one_var, d.xnor),
                        em(d.vars ^ u32::MAX, !d.xnor),
                        em(u32::MAX, d.xnor),
                        em(d.vars.rotate_left(1), d.xnor),
                    ] {
                        exec(ctx, &ev_e("epair", 32, &[d, o]), &mut rng);
                        exec(ctx, &ev_e("epair", 32, &[o, d]), &mut rng);
                    }
                }
                if c == 0 {
                    for nn in 6..=10 {
                        exec(ctx, &Ev::new("eall", "Ecube", nn), &mut rng);
                    }
                }
                for r in 0..if thorough { 2000 } else { 100 } {
                    let which = (r % 2) as u64;
                    let nn = 5 + rng.below(8);
                    let src = em(rng.next_u64() as u32, rng.bool());
                    let len = if which == 0 { 2usize << nn } else { src.vars.count_ones() as usize };
                    let script = vmon::iterprobe::gen_seq_script(len, &mut rng);
                    let mut e = ev_e("eiter-script", if which == 0 { nn } else { 32 }, &[src]);
                    e.ints.push(which);
                    e.ints.extend(vmon::iterprobe::script_to_ints(false, &script));
                    exec(ctx, &e, &mut rng);
                }
            }
        }
    });
    // hidden-state monitor: sampled events of all shards again, mixed, on one thread (ctx::run_mix)
    {
        let mut rng = Rng::new(seed ^ 0x316d);
        run_mix(&mut ctx, seed, |c, e| exec(c, e, &mut rng));
    }
    // and concurrently: the same sample on several threads at once (shared state inside the library)
    run_mix_concurrent(&mut ctx, seed, cli.threads, |c, e| {
        let mut rng = Rng::new(e.digest());
        exec(c, e, &mut rng)
    });
    let mut required: Vec<String> = Vec::new();
    for s in ["small", "wide"] {
        required.push(format!("esingle|term|{}", s));
        required.push(format!("esingle|constant|{}", s));
        required.push(format!("epair|{}", s));
    }
    for n in 0..=5 {
        required.push(format!("eall|n={}", n));
        if n == 0 {
            required.push("soes-long-lists".into());
        }
        if n == 0 {
            for name in ["Ecube::all", "vars"] {
                required.push(format!("iter-script|{}", name));
                for k in ["nth", "skip.next", "step_by.take3", "take.count", "count", "last", "size_hint"] {
                    required.push(format!("iter-method|{}|{}", k, name));
                }
            }
        }
    }
    for n in 0..=3 {
        required.push(format!("eimplies|n={}", n));
    }
    for n in 0..=8 {
        // some Soes event at every n
        if !ctx.cells.keys().any(|k| k.starts_with("soes|") && k.ends_with(&format!("|n={}", n))) {
            required.push(format!("soes|len=1+1|n={}", n));
        }
    }
    for la in 0..=4 {
        if !ctx.cells.keys().any(|k| k.starts_with(&format!("soes|len={}+", la))) {
            required.push(format!("soes|len={}+0|n=4", la));
        }
    }
    cli.finish(&ctx, &required, RULE);
}
