//! C16 — Display of cubes and two-level forms is a formula denoting the same function
//! (DESIGN.md section 3, C16).

use std::collections::HashMap;

use volute::sop::{Cube, Ecube, Esop, Soes, Sop};

use vmon::twolevel::{all_cubes, CubeM, EcubeM, Formula};
use vmon::*;

const RULE: &str = "event = to_string() of one Cube / Ecube / Sop / Esop / Soes, parsed by a recursive-descent \
evaluator of the grammar or := xor ('|' xor)*, xor := term ('^' term)*, term := factor+ (AND), factor := 0 | 1 | !?x<digits> (blanks free), \
and evaluated on every assignment of the variables in range against value(); the whole text must be consumed, \
variable indices increase inside a cube/exclusive cube, distinct cubes print distinct text. All cubes/ecubes \
n<=4 (n=5 thorough), all Sop/Esop/Soes with <=2 terms over n<=3 (3 terms sampled; exhaustive in thorough), random \
forms to 12 variables, single cubes over 32 variables (two-digit indices). non-trivial = some term has a \
literal; distinct = distinct (kind, n, terms)";

#[derive(Clone, Copy, PartialEq, Eq, Debug, Hash, PartialOrd, Ord)]
enum Kind {
    Cube,
    Ecube,
    Sop,
    Esop,
    Soes,
}

impl Kind {
    fn name(self) -> &'static str {
        match self {
            Kind::Cube => "Cube",
            Kind::Ecube => "Ecube",
            Kind::Sop => "Sop",
            Kind::Esop => "Esop",
            Kind::Soes => "Soes",
        }
    }
    fn of(s: &str) -> Kind {
        *[Kind::Cube, Kind::Ecube, Kind::Sop, Kind::Esop, Kind::Soes].iter().find(|k| k.name() == s).expect("harness: kind")
    }
}

/// terms as (a, b): cubes (pos, neg), exclusive cubes (vars, xnor)
fn make_ev(kind: Kind, n: usize, terms: &[(u32, u32)]) -> Ev {
    let mut ev = Ev::new("display", kind.name(), n);
    for t in terms {
        ev = ev.int64(t.0 as u64).int64(t.1 as u64);
    }
    ev
}

fn terms_of(ev: &Ev) -> Vec<(u32, u32)> {
    (0..ev.ints.len() / 2).map(|k| (ev.ints[2 * k] as u32, ev.ints[2 * k + 1] as u32)).collect()
}

/// assignments: all of them up to 12 variables, else the support enumerated with random filler
fn assignments(n: usize, support: u32, rng: &mut Rng) -> Vec<u64> {
    if n <= 12 {
        return (0..1u64 << n).collect();
    }
    let vars: Vec<u32> = (0..32).filter(|v| (support >> v) & 1 == 1).collect();
    assert!(vars.len() <= 13, "harness: support too large");
    (0..(1u64 << vars.len()))
        .map(|s| {
            let mut m = rng.next_u64() & 0xffff_ffff & !(support as u64);
            for (k, v) in vars.iter().enumerate() {
                if (s >> k) & 1 == 1 {
                    m |= 1u64 << v;
                }
            }
            m
        })
        .collect()
}

/// Returns the printed text (for the distinctness monitor of the caller).
/// The text of a value (plain `to_string()`), and what the other routes to its `Display` give: format-spec flags
/// must leave the text recognisable, and a writer that fails midway must get a prefix of the text, an `Err`, and
/// leave the next print of the value untouched (fmtprobe.rs).
fn show<D: std::fmt::Display>(d: &D, salt: u64) -> (String, Result<usize, (&'static str, String)>) {
    use std::fmt::Write as _;
    use vmon::fmtprobe as fp;
    let text = d.to_string();
    let routes = (|| {
        let mut checks = fp::judge_specs(&fp::display_specs(d), &text, None)
            .map_err(|(s, o)| ("format-flags", format!("{} gives {:?}, which does not carry the text {:?}", s, o, text)))?;
        checks += fp::judge_failing(&text, &fp::caps_for(text.len(), salt), &|w| write!(w, "{}", d), &|| d.to_string())
            .map_err(|m| ("failing-writer", m))?;
        Ok(checks)
    })();
    (text, routes)
}

/// `s` itself, a clone, or the result of `clone_from(&s)` over one of two other objects (chosen by `salt`).
fn with_history<T: Clone>(s: T, others: [T; 2], salt: u64) -> T {
    match (salt >> 11) % 6 {
        0..=2 => s,
        3 => s.clone(),
        k => {
            let mut d = others[(k - 4) as usize].clone();
            d.clone_from(&s);
            d
        }
    }
}

fn exec(ctx: &mut Ctx, ev: &Ev, rng: &mut Rng) -> Option<String> {
    let n = ev.n;
    let kind = Kind::of(&ev.ty);
    let terms = terms_of(ev);
    let support: u32 = terms.iter().map(|t| if matches!(kind, Kind::Ecube | Kind::Soes) { t.0 } else { t.0 | t.1 }).fold(0, |a, b| a | b);
    let nontrivial = support != 0;
    let cell = format!("{}|terms={}|{}", kind.name(), std::cmp::min(terms.len(), 4), if n > 12 { "wide" } else if support >> 10 != 0 { "two-digit" } else { "small" });
    ctx.event(&cell, ev, nontrivial);
    let asg = assignments(n, support, rng);
    let salt = ev.digest();
    let r = guard(|| match kind {
        Kind::Cube => {
            let c = CubeM::new(terms[0].0, terms[0].1).real();
            (show(&c, salt), asg.iter().map(|m| c.value(*m as usize)).collect::<Vec<bool>>())
        }
        Kind::Ecube => {
            let c = EcubeM { vars: terms[0].0, xnor: terms[0].1 == 1 }.real();
            (show(&c, salt), asg.iter().map(|m| c.value(*m as usize)).collect())
        }
        // two-level forms with a history: a third of the time the printed object was obtained by `clone()` or by
        // `clone_from` over an object of a smaller / larger arity (with room for the terms)
        Kind::Sop => {
            let s = Sop::from_cubes(n, terms.iter().map(|t| CubeM::new(t.0, t.1).real()).collect());
            // or the result of an operation: the OR of the two halves of the list, in one of the operator forms
            let s = if (salt >> 17) % 3 == 0 && terms.len() >= 2 {
                let h = terms.len() / 2;
                let a = Sop::from_cubes(n, terms[..h].iter().map(|t| CubeM::new(t.0, t.1).real()).collect());
                let b = Sop::from_cubes(n, terms[h..].iter().map(|t| CubeM::new(t.0, t.1).real()).collect());
                match (salt >> 21) % 4 {
                    0 => a | b,
                    1 => &a | &b,
                    2 => a | &b,
                    _ => &a | b,
                }
            } else {
                s
            };
            let pad: Vec<Cube> = (0..terms.len() + 2).map(|_| Cube::one()).collect();
            let s = with_history(s, [Sop::from_cubes(n.saturating_sub(2), pad.clone()), Sop::from_cubes(n + 3, pad)], salt);
            (show(&s, salt), asg.iter().map(|m| s.value(*m as usize)).collect())
        }
        Kind::Esop => {
            let s = Esop::from_cubes(n, terms.iter().map(|t| CubeM::new(t.0, t.1).real()).collect());
            let s = if (salt >> 17) % 3 == 0 && terms.len() >= 2 {
                let h = terms.len() / 2;
                let a = Esop::from_cubes(n, terms[..h].iter().map(|t| CubeM::new(t.0, t.1).real()).collect());
                let b = Esop::from_cubes(n, terms[h..].iter().map(|t| CubeM::new(t.0, t.1).real()).collect());
                match (salt >> 21) % 5 {
                    0 => a ^ b,
                    1 => &a ^ &b,
                    2 => a ^ &b,
                    3 => &a ^ b,
                    _ => !!(a ^ &b),
                }
            } else {
                s
            };
            let pad: Vec<Cube> = (0..terms.len() + 2).map(|_| Cube::one()).collect();
            let s = with_history(s, [Esop::from_cubes(n.saturating_sub(2), pad.clone()), Esop::from_cubes(n + 3, pad)], salt);
            (show(&s, salt), asg.iter().map(|m| s.value(*m as usize)).collect())
        }
        Kind::Soes => {
            let s = Soes::from_cubes(n, terms.iter().map(|t| EcubeM { vars: t.0, xnor: t.1 == 1 }.real()).collect());
            let s = if (salt >> 17) % 3 == 0 && terms.len() >= 2 {
                let h = terms.len() / 2;
                let a = Soes::from_cubes(n, terms[..h].iter().map(|t| EcubeM { vars: t.0, xnor: t.1 == 1 }.real()).collect());
                let b = Soes::from_cubes(n, terms[h..].iter().map(|t| EcubeM { vars: t.0, xnor: t.1 == 1 }.real()).collect());
                match (salt >> 21) % 4 {
                    0 => a | b,
                    1 => &a | &b,
                    2 => a | &b,
                    _ => &a | b,
                }
            } else {
                s
            };
            let pad: Vec<Ecube> = (0..terms.len() + 2).map(|_| Ecube::one()).collect();
            let s = with_history(s, [Soes::from_cubes(n.saturating_sub(2), pad.clone()), Soes::from_cubes(n + 3, pad)], salt);
            (show(&s, salt), asg.iter().map(|m| s.value(*m as usize)).collect())
        }
    });
    let ((text, routes), vals) = match r {
        Outcome::Returned(x) => x,
        Outcome::Panicked(msg) => {
            ctx.violate("no-panic", ev, kind.name(), format!("printing panicked: {}", msg));
            return None;
        }
    };
    match routes {
        Ok(k) => ctx.checked("same-text-by-any-route", k as u64),
        Err((key, msg)) => ctx.violate("same-text-by-any-route", ev, &format!("{}:{}", kind.name(), key), msg),
    }
    let f = match Formula::parse(&text) {
        Ok(f) => f,
        Err(e) => {
            ctx.violate("parses-as-formula", ev, kind.name(), format!("{:?} is not a formula of the grammar: {}", text, e));
            return Some(text);
        }
    };
    ctx.checked("parses-as-formula", 1);
    let in_range = f.max_var().map(|v| v < 32 && (n > 12 || v < n)).unwrap_or(true);
    ctx.check("variables-in-range", in_range, ev, kind.name(), || format!("{:?} mentions a variable outside 0..{}", text, n));
    let bad = asg.iter().zip(vals.iter()).find(|(m, v)| f.eval(**m) != **v);
    ctx.checked("formula-denotes-value", asg.len() as u64);
    ctx.check("formula-denotes-value", bad.is_none(), ev, kind.name(), || {
        let (m, v) = bad.unwrap();
        format!("{:?} evaluates to {} on assignment {:#x} but value() is {}", text, !*v, m, v)
    });
    // "variables appear in increasing index order": over the whole text for a cube / exclusive cube,
    // inside every AND term (Sop, Esop) or every XOR group (Soes) for the two-level forms.
    // Nothing else about the shape of the text is demanded by the property.
    let inc = |v: &[usize]| v.windows(2).all(|w| w[0] < w[1]);
    let order_ok = match kind {
        Kind::Cube | Kind::Ecube => inc(&(0..f.ors.len()).flat_map(|k| f.group_vars(k)).collect::<Vec<usize>>()),
        Kind::Sop | Kind::Esop => f.cube_terms_increasing(),
        Kind::Soes => (0..f.ors.len()).all(|k| inc(&f.group_vars(k))),
    };
    ctx.check("increasing-indices", order_ok, ev, kind.name(), || format!("{:?}: variable indices do not increase inside a {}", text, kind.name()));
    Some(text)
}

struct Distinct {
    seen: HashMap<String, (Kind, Vec<(u32, u32)>)>,
}

impl Distinct {
    /// distinct cubes (semantically distinct single terms) must print distinct text
    fn note(&mut self, ctx: &mut Ctx, ev: &Ev, kind: Kind, text: &str, terms: &[(u32, u32)]) {
        if !matches!(kind, Kind::Cube | Kind::Ecube) {
            return;
        }
        let canon: Vec<(u32, u32)> = if kind == Kind::Cube && CubeM::new(terms[0].0, terms[0].1).contradictory() {
            vec![(u32::MAX, u32::MAX)]
        } else {
            terms.to_vec()
        };
        let key = format!("{}:{}", kind.name(), text);
        match self.seen.get(&key) {
            Some((_, other)) => {
                ctx.check("distinct-cubes-distinct-text", *other == canon, ev, kind.name(), || format!("two different {}s print the same text {:?}: {:x?} and {:x?}", kind.name(), text, other, canon));
            }
            None => {
                ctx.checked("distinct-cubes-distinct-text", 1);
                self.seen.insert(key, (kind, canon));
            }
        }
    }
}

fn run(ctx: &mut Ctx, d: &mut Distinct, rng: &mut Rng, kind: Kind, n: usize, terms: &[(u32, u32)]) {
    let ev = make_ev(kind, n, terms);
    if let Some(text) = exec(ctx, &ev, rng) {
        d.note(ctx, &ev, kind, &text, terms);
    }
}

fn all_eterms(n: usize) -> Vec<(u32, u32)> {
    let mut v = Vec::new();
    for vars in 0..(1u32 << n) {
        v.push((vars, 0));
        v.push((vars, 1));
    }
    v
}

fn main() {
    silence_panics();
    let cli = Cli::parse();
    let mut ctx = cli.ctx("C16");
    if let Some(ev) = cli.replay_event() {
        let mut rng = Rng::new(cli.seed);
        exec(&mut ctx, &ev, &mut rng);
        std::process::exit(vmon::ctx::report_replay(&ctx));
    }
    let thorough = ctx.thorough();
    let seed = cli.seed;
    let mut shards: Vec<(&str, usize, usize, usize)> = Vec::new();
    shards.push(("single", 0, 0, 1));
    for n in 0..=3usize {
        let chunks = if n == 3 { 8 } else { 1 };
        for c in 0..chunks {
            shards.push(("forms", n, c, chunks));
        }
    }
    for c in 0..8 {
        shards.push(("random", 12, c, 8));
    }
    run_sharded(&mut ctx, cli.threads, shards.len(), |ctx, k| {
        let (what, n, c, chunks) = shards[k];
        let mut rng = Rng::new(seed ^ ((n as u64) << 6) ^ ((c as u64) << 26) ^ ((what.len() as u64) << 38));
        let mut d = Distinct { seen: HashMap::new() };
        match what {
            "single" => {
                // all cubes (every literal-mask pair: contradictory ones print as 0) and exclusive cubes;
                // one Distinct per n: the same cube is the same text whatever n is
                let top = if thorough { 5 } else { 4 };
                for nn in 0..=top {
                    for pos in 0..(1u32 << nn) {
                        for neg in 0..(1u32 << nn) {
                            run(ctx, &mut d, &mut rng, Kind::Cube, nn, &[(pos, neg)]);
                        }
                    }
                    for t in all_eterms(nn) {
                        run(ctx, &mut d, &mut rng, Kind::Ecube, nn, &[t]);
                    }
                    ctx.exhaustive.insert(format!("all cubes and exclusive cubes, n={}", nn), true);
                }
                // all cubes over variables {0,1,9,10,11,19} style sets: adjacency of x1 and x10..x19
                let vars = [1u32, 10, 11, 2, 12, 21];
                for code in 0..(3u32.pow(6)) {
                    let (mut pos, mut neg, mut k2) = (0u32, 0u32, code);
                    for v in vars {
                        match k2 % 3 {
                            1 => pos |= 1 << v,
                            2 => neg |= 1 << v,
                            _ => {}
                        }
                        k2 /= 3;
                    }
                    run(ctx, &mut d, &mut rng, Kind::Cube, 32, &[(pos, neg)]);
                }
                for code in 0..(1u32 << 7) {
                    let mut vs = 0u32;
                    for (i, v) in vars.iter().enumerate() {
                        if (code >> i) & 1 == 1 {
                            vs |= 1 << v;
                        }
                    }
                    run(ctx, &mut d, &mut rng, Kind::Ecube, 32, &[(vs, (code >> 6) & 1)]);
                }
            }
            "forms" => {
                let cubes: Vec<(u32, u32)> = all_cubes(n).iter().map(|c| (c.pos, c.neg)).collect();
                let eterms = all_eterms(n);
                let exh = if thorough { 3 } else { 2 };
                let mut idx = 0usize;
                for (kind, pool) in [(Kind::Sop, &cubes), (Kind::Esop, &cubes), (Kind::Soes, &eterms)] {
                    for len in 0..=exh {
                        let total = pool.len().pow(len as u32);
                        for code in 0..total {
                            idx += 1;
                            if idx % chunks != c {
                                continue;
                            }
                            let mut terms = Vec::new();
                            let mut k2 = code;
                            for _ in 0..len {
                                terms.push(pool[k2 % pool.len()]);
                                k2 /= pool.len();
                            }
                            run(ctx, &mut d, &mut rng, kind, n, &terms);
                        }
                    }
                    // sampled 3-term forms
                    for _ in 0..if thorough { 0 } else { 600 } {
                        let terms: Vec<(u32, u32)> = (0..3).map(|_| *rng.pick(pool)).collect();
                        run(ctx, &mut d, &mut rng, kind, n, &terms);
                    }
                }
                ctx.exhaustive.insert(format!("all Sop/Esop/Soes with <= {} terms, n={}", exh, n), true);
            }
            _ => {
                // a sweep over text lengths: a fixed list of dense terms preceded by a cube of k literals, for
                // every k, then a short tail term: the position where the tail's separator falls takes every
                // value modulo small powers of two
                if c == 0 {
                    for terms in [4usize, 8, 9, 17, 33, 40] {
                        for lead in 0..=12usize {
                            let nn = 12usize;
                            let mut cl: Vec<(u32, u32)> = Vec::new();
                            cl.push(((1u32 << lead) - 1, 0));
                            for t in 0..terms {
                                let pos = (0x5a5u32.rotate_left(t as u32) ^ (t as u32 * 37)) & 0xfff;
                                cl.push((pos, !pos & 0xfff));
                            }
                            cl.push((1 << 9, 1 << 8));
                            cl.push((1, 0));
                            run(ctx, &mut d, &mut rng, Kind::Sop, nn, &cl);
                            run(ctx, &mut d, &mut rng, Kind::Esop, nn, &cl);
                            let el: Vec<(u32, u32)> = cl.iter().map(|(p, q)| (*p | (*q & 0x111), (p.count_ones() & 1))).collect();
                            run(ctx, &mut d, &mut rng, Kind::Soes, nn, &el);
                        }
                    }
                }
                let reps = if thorough { 300000 } else { 2000 };
                for _ in 0..reps {
                    let nn = rng.range(4, 12);
                    let rc = |rng: &mut Rng| {
                        let mut c = CubeM::new(0, 0);
                        for _ in 0..rng.below(5) {
                            let v = if rng.bool() { rng.below(nn) } else { nn - 1 - rng.below(std::cmp::min(nn, 3)) };
                            if c.support() & (1 << v) == 0 {
                                if rng.bool() {
                                    c.pos |= 1 << v;
                                } else {
                                    c.neg |= 1 << v;
                                }
                            }
                        }
                        (c.pos, c.neg)
                    };
                    let re = |rng: &mut Rng| {
                        let mut v = 0u32;
                        for _ in 0..rng.below(5) {
                            v |= 1 << rng.below(nn);
                        }
                        (v, rng.below(2) as u32)
                    };
                    let len = rng.range(0, 5);
                    let cl: Vec<(u32, u32)> = (0..len).map(|_| rc(&mut rng)).collect();
                    let el: Vec<(u32, u32)> = (0..len).map(|_| re(&mut rng)).collect();
                    run(ctx, &mut d, &mut rng, Kind::Sop, nn, &cl);
                    run(ctx, &mut d, &mut rng, Kind::Esop, nn, &cl);
                    run(ctx, &mut d, &mut rng, Kind::Soes, nn, &el);
                    // long forms: 8..64 terms (texts of hundreds to thousands of characters: buffer boundaries)
                    if rng.chance(1, 4) {
                        let terms = rng.range(8, 64);
                        let dense = rng.bool();
                        let cl: Vec<(u32, u32)> = (0..terms)
                            .map(|_| {
                                if dense {
                                    // every variable appears
                                    let pos = rng.next_u64() as u32 & ((1u32 << nn) - 1);
                                    (pos, !pos & ((1u32 << nn) - 1))
                                } else {
                                    rc(&mut rng)
                                }
                            })
                            .collect();
                        let el: Vec<(u32, u32)> = (0..terms).map(|_| re(&mut rng)).collect();
                        run(ctx, &mut d, &mut rng, Kind::Sop, nn, &cl);
                        run(ctx, &mut d, &mut rng, Kind::Esop, nn, &cl);
                        run(ctx, &mut d, &mut rng, Kind::Soes, nn, &el);
                        ctx.cell_only("long-forms");
                    }
                    // single wide cubes / exclusive cubes: two-digit indices up to 31
                    let mut w = CubeM::new(0, 0);
                    for _ in 0..rng.below(7) {
                        let v = match rng.below(4) {
                            0 => rng.range(10, 19),
                            1 => rng.range(20, 31),
                            2 => rng.range(1, 3),
                            _ => rng.below(32),
                        };
                        if w.support() & (1 << v) == 0 {
                            if rng.bool() {
                                w.pos |= 1 << v;
                            } else {
                                w.neg |= 1 << v;
                            }
                        }
                    }
                    run(ctx, &mut d, &mut rng, Kind::Cube, 32, &[(w.pos, w.neg)]);
                    let pol = rng.below(2) as u32;
                    run(ctx, &mut d, &mut rng, Kind::Ecube, 32, &[(w.pos | w.neg, pol)]);
                }
            }
        }
    });
    // hidden-state monitor: sampled events of all shards again, mixed, on one thread (ctx::run_mix)
    {
        let mut rng = Rng::new(seed ^ 0x316d);
        run_mix(&mut ctx, seed, |c, e| {
            exec(c, e, &mut rng);
        });
    }
    // and concurrently: the same sample on several threads at once (shared state inside the library)
    run_mix_concurrent(&mut ctx, seed, cli.threads, |c, e| {
        let mut rng = Rng::new(e.digest());
        exec(c, e, &mut rng);
    });
    let mut required: Vec<String> = Vec::new();
    for k in ["Cube", "Ecube"] {
        required.push(format!("{}|terms=1|small", k));
        required.push(format!("{}|terms=1|wide", k));
    }
    for k in ["Sop", "Esop", "Soes"] {
        for t in 0..=3 {
            required.push(format!("{}|terms={}|small", k, t));
        }
        required.push(format!("{}|terms=2|two-digit", k));
    }
    required.push("long-forms".into());
    cli.finish(&ctx, &required, RULE);
}
