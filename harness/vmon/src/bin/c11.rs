//! C11 — named constructors build exactly the functions their names denote (DESIGN.md section 3, C11).

use vmon::ctx::hex_of_blocks;
use vmon::obs::observe;
use vmon::*;

const RULE: &str = "event = one constructor call (zero, one, default, nth_var(i), parity, majority, \
threshold(k), equals(k), symmetric(c)); n = 0..=12 (Lut to 14), all i < n, k in 0..=n+2 and {63,64,65,MAX}, \
count masks: all 2^(n+1) for n<=4 then walking ones/zeros and random 64-bit words with garbage above bit n; \
non-trivial = the expected function is neither constant nor a literal; distinct = distinct (constructor, type, n, argument)";

fn cell(op: &str, ty: &str, n: usize) -> String {
    format!("{}|{}|n={}", op, ty, n)
}

fn exec<T: Tbl>(ctx: &mut Ctx, ev: &Ev) {
    let n = ev.n;
    let arg = ev.ints.first().copied().unwrap_or(0);
    let k = arg as usize;
    let (want, out): (Model, Outcome<T>) = match ev.op.as_str() {
        "zero" => (Model::constant(n, false), guard(|| T::t_zero(n))),
        "one" => (Model::constant(n, true), guard(|| T::t_one(n))),
        "default" => (Model::constant(n, false), guard(|| T::t_default(n))),
        "nth_var" => (Model::var(n, k), guard(|| T::t_nth_var(n, k))),
        "parity" => (Model::parity(n), guard(|| T::t_parity(n))),
        "majority" => (Model::majority(n), guard(|| T::t_majority(n))),
        "threshold" => (Model::threshold(n, k), guard(|| T::t_threshold(n, k))),
        "equals" => (Model::equals(n, k), guard(|| T::t_equals(n, k))),
        "symmetric" => (Model::symmetric(n, arg), guard(|| T::t_symmetric(n, k))),
        other => panic!("harness: unknown op {}", other),
    };
    ctx.event(&cell(&ev.op, T::ty(), n), ev, want.nontrivial());
    if ev.op == "equals" && n >= 7 && k <= n {
        ctx.cell_only(&format!("equals-wordpopcount|{}|n={}|k={}", T::ty(), n, k));
    }
    match out {
        Outcome::Returned(t) => {
            if let Some(got) = observe(ctx, ev, "constructed value", &t, n) {
                let key = if ev.op == "equals" || ev.op == "threshold" {
                    if k > n { "k>n" } else { "k<=n" }
                } else {
                    "value"
                };
                ctx.check("constructor-exact", got == want, ev, key, || {
                    format!("{}({}) for n={} gave {} expected {}", ev.op, arg, n,
                        hex_of_blocks(t.t_blocks()), hex_of_blocks(&want.to_blocks()))
                });
            }
        }
        Outcome::Panicked(m) => {
            let key = if (ev.op == "equals" || ev.op == "threshold") && k > n { "panic:k>n" } else { "panic" };
            ctx.violate("no-panic", ev, key, format!("{}({}) for n={} panicked: {}", ev.op, arg, n, m));
        }
    }
}

fn exec_dispatch(ctx: &mut Ctx, ev: &Ev) {
    with_ty!(ev.is_static(), ev.n, T => exec::<T>(ctx, ev))
}

const MAX_N: usize = 14;

fn main() {
    silence_panics();
    let cli = Cli::parse();
    let mut ctx = cli.ctx("C11");
    if let Some(ev) = cli.replay_event() {
        exec_dispatch(&mut ctx, &ev);
        std::process::exit(vmon::ctx::report_replay(&ctx));
    }
    let thorough = ctx.thorough();
    let seed = cli.seed;
    let shards: Vec<(usize, &str)> = (0..=MAX_N)
        .flat_map(|n| ["Lut", "LutN"].into_iter().map(move |t| (n, t)))
        .filter(|(n, t)| *t == "Lut" || *n <= tbl::MAX_STATIC)
        .collect();
    // cold start: the FIRST request of the process for each constructor at each multi-word size comes from 8
    // threads released together by a barrier (lazily initialised process-wide tables have their race here, once)
    {
        let budget = std::time::Duration::from_millis(200);
        let mut total = 0u64;
        for n in (7..=MAX_N).rev() {
            for op in ["majority", "parity", "threshold", "equals", "symmetric"] {
                let arg = if op == "symmetric" { 0x5a5a_a5a5_3c3c_c3c3u64 ^ n as u64 } else { (n as u64 + 1) / 2 };
                let mut evs = vec![Ev::new(op, "Lut", n).int64(arg)];
                if n <= tbl::MAX_STATIC {
                    evs.push(Ev::new(op, "LutN", n).int64(arg));
                }
                total += run_events_concurrently(&mut ctx, seed, cli.threads, &evs, budget, |c, e| exec_dispatch(c, e));
            }
        }
        ctx.bump("cold-start:first-requests", total);
    }
    run_sharded(&mut ctx, cli.threads, shards.len(), |ctx, s| {
        let (n, ty) = shards[s];
        let mut rng = Rng::new(seed ^ ((n as u64) << 24) ^ if ty == "Lut" { 0 } else { 0xabcd });
        for op in ["zero", "one", "parity", "majority"] {
            exec_dispatch(ctx, &Ev::new(op, ty, n));
        }
        if ty == "LutN" || n == 0 {
            exec_dispatch(ctx, &Ev::new("default", ty, n));
        }
        for i in 0..n {
            exec_dispatch(ctx, &Ev::new("nth_var", ty, n).int(i));
        }
        let mut ks: Vec<usize> = (0..=n + 2).collect();
        ks.extend([31, 32, 33, 62, 63, 64, 65, 66, 127, 128, 129, usize::MAX - 1, usize::MAX, usize::MAX / 2, 1 << 32]);
        for k in &ks {
            exec_dispatch(ctx, &Ev::new("threshold", ty, n).int(*k));
            exec_dispatch(ctx, &Ev::new("equals", ty, n).int(*k));
        }
        // count masks
        if n <= 4 {
            for c in 0..(1u64 << (n + 1)) {
                exec_dispatch(ctx, &Ev::new("symmetric", ty, n).int64(c));
                // same mask with garbage above bit n
                let g = c | (rng.next_u64() << (n + 1));
                exec_dispatch(ctx, &Ev::new("symmetric", ty, n).int64(g));
            }
            ctx.exhaustive.insert(format!("all count masks, n={}", n), true);
        }
        for b in 0..64 {
            exec_dispatch(ctx, &Ev::new("symmetric", ty, n).int64(1u64 << b));
            exec_dispatch(ctx, &Ev::new("symmetric", ty, n).int64(!(1u64 << b)));
        }
        exec_dispatch(ctx, &Ev::new("symmetric", ty, n).int64(0));
        exec_dispatch(ctx, &Ev::new("symmetric", ty, n).int64(!0));
        // masks with exactly k set bits for every k in 0..=64, spread over all 64 positions / kept above bit n /
        // with a random low part: count-dependent shortcuts must look at the relevant bits only
        for k in 0..=64usize {
            for variant in 0..if thorough { 24 } else { 6 } {
                let mut positions: Vec<usize> = match variant % 3 {
                    0 => (0..64).collect(),
                    1 => (std::cmp::min(n + 1, 63)..64).collect(),
                    _ => (0..64).collect(),
                };
                rng.shuffle(&mut positions);
                let mut m = 0u64;
                for p in positions.iter().take(k) {
                    m |= 1u64 << p;
                }
                if variant % 3 == 2 {
                    // force some relevant bits to both values
                    m &= !(1u64 << rng.below(n + 1));
                    m |= 1u64 << (63 - rng.below(8));
                }
                exec_dispatch(ctx, &Ev::new("symmetric", ty, n).int64(m));
            }
        }
        let reps = if thorough { 60000 } else { 300 };
        for _ in 0..reps {
            exec_dispatch(ctx, &Ev::new("symmetric", ty, n).int64(rng.next_u64()));
        }
        if thorough && n <= 12 {
            let all = 1u64 << (n + 1);
            for c in 0..all {
                exec_dispatch(ctx, &Ev::new("symmetric", ty, n).int64(c));
            }
        }
    });
    // hidden-state monitor: sampled events of all shards again, mixed, on one thread (ctx::run_mix)
    run_mix(&mut ctx, seed, |c, e| exec_dispatch(c, e));
    // and concurrently: the same sample on several threads at once (shared state inside the library)
    run_mix_concurrent(&mut ctx, seed, cli.threads, |c, e| exec_dispatch(c, e));
    // storms: one constructor at one multi-word size called from 8 threads at once with arguments from a small
    // set, so that threads ask for the same and for neighbouring functions at the same time (state shared between
    // threads and keyed on part of the arguments)
    {
        let mut rng = Rng::new(seed ^ 0x5707);
        let budget = std::time::Duration::from_millis(if thorough { 4000 } else { 400 });
        let mut total = 0u64;
        for (n, ty) in shards.iter().filter(|(n, _)| *n >= 7) {
            for op in ["threshold", "equals", "symmetric"] {
                let mut evs: Vec<Ev> = Vec::new();
                let masks: Vec<u64> = (0..6).map(|_| rng.next_u64()).collect();
                for r in 0..60usize {
                    let arg: u64 = if op == "symmetric" { masks[r % masks.len()] ^ ((r as u64 % 2) << *n) } else { (r % (n + 2)) as u64 };
                    evs.push(Ev::new(op, ty, *n).int64(arg));
                }
                total += run_events_concurrently(&mut ctx, seed ^ (*n as u64) << 8, cli.threads, &evs, budget, |c, e| exec_dispatch(c, e));
            }
        }
        ctx.bump("storm:constructor-calls", total);
    }
    let mut required = Vec::new();
    for (n, ty) in &shards {
        for op in ["zero", "one", "parity", "majority", "threshold", "equals", "symmetric"] {
            required.push(cell(op, ty, *n));
        }
        if *n > 0 {
            required.push(cell("nth_var", ty, *n));
        }
        if *n >= 7 {
            for k in 0..=*n {
                required.push(format!("equals-wordpopcount|{}|n={}|k={}", ty, n, k));
            }
        }
    }
    cli.finish(&ctx, &required, RULE);
}
