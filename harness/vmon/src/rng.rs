//! Private deterministic PRNG (SplitMix64 seeding a xoshiro256**), independent of the `rand`
//! crate on purpose: `rand` is the subject of property C19.

#[derive(Clone, Debug)]
pub struct Rng {
    s: [u64; 4],
}

fn splitmix(x: &mut u64) -> u64 {
    *x = x.wrapping_add(0x9e37_79b9_7f4a_7c15);
    let mut z = *x;
    z = (z ^ (z >> 30)).wrapping_mul(0xbf58_476d_1ce4_e5b9);
    z = (z ^ (z >> 27)).wrapping_mul(0x94d0_49bb_1331_11eb);
    z ^ (z >> 31)
}

impl Rng {
    pub fn new(seed: u64) -> Rng {
        let mut x = seed;
        let s = [
            splitmix(&mut x),
            splitmix(&mut x),
            splitmix(&mut x),
            splitmix(&mut x),
        ];
        Rng { s }
    }

    /// Derive an independent stream (for shards / sub-workloads).
    pub fn fork(&mut self, tag: u64) -> Rng {
        let a = self.next_u64();
        Rng::new(a ^ tag.wrapping_mul(0xd6e8_feb8_6659_fd93))
    }

    pub fn next_u64(&mut self) -> u64 {
        let r = self.s[1].wrapping_mul(5).rotate_left(7).wrapping_mul(9);
        let t = self.s[1] << 17;
        self.s[2] ^= self.s[0];
        self.s[3] ^= self.s[1];
        self.s[1] ^= self.s[2];
        self.s[0] ^= self.s[3];
        self.s[2] ^= t;
        self.s[3] = self.s[3].rotate_left(45);
        r
    }

    /// Uniform in 0..n (n > 0).
    pub fn below(&mut self, n: usize) -> usize {
        assert!(n > 0);
        ((self.next_u64() as u128 * n as u128) >> 64) as usize
    }

    /// Uniform in lo..=hi.
    pub fn range(&mut self, lo: usize, hi: usize) -> usize {
        lo + self.below(hi - lo + 1)
    }

    pub fn bool(&mut self) -> bool {
        self.next_u64() >> 63 != 0
    }

    /// true with probability num/den
    pub fn chance(&mut self, num: usize, den: usize) -> bool {
        self.below(den) < num
    }

    pub fn pick<'a, T>(&mut self, v: &'a [T]) -> &'a T {
        &v[self.below(v.len())]
    }

    pub fn shuffle<T>(&mut self, v: &mut [T]) {
        for i in (1..v.len()).rev() {
            let j = self.below(i + 1);
            v.swap(i, j);
        }
    }
}

/// 64-bit FNV-1a style mixing digest used for "distinct case" counting and result digests.
#[derive(Clone, Copy)]
pub struct Digest(pub u64);

impl Digest {
    pub fn new() -> Digest {
        Digest(0xcbf2_9ce4_8422_2325)
    }
    pub fn u64(mut self, v: u64) -> Digest {
        let mut x = self.0 ^ v;
        x = x.wrapping_mul(0x0000_0100_0000_01b3);
        x ^= x >> 29;
        x = x.wrapping_mul(0xbf58_476d_1ce4_e5b9);
        x ^= x >> 32;
        self.0 = x;
        self
    }
    pub fn usize(self, v: usize) -> Digest {
        self.u64(v as u64)
    }
    pub fn bytes(mut self, b: &[u8]) -> Digest {
        self = self.u64(b.len() as u64);
        for c in b.chunks(8) {
            let mut w = [0u8; 8];
            w[..c.len()].copy_from_slice(c);
            self = self.u64(u64::from_le_bytes(w));
        }
        self
    }
    pub fn str(self, s: &str) -> Digest {
        self.bytes(s.as_bytes())
    }
    pub fn words(mut self, w: &[u64]) -> Digest {
        self = self.u64(w.len() as u64);
        for x in w {
            self = self.u64(*x);
        }
        self
    }
    pub fn bools(mut self, b: &[bool]) -> Digest {
        self = self.u64(b.len() as u64);
        let mut acc = 0u64;
        let mut k = 0;
        for x in b {
            acc |= (*x as u64) << k;
            k += 1;
            if k == 64 {
                self = self.u64(acc);
                acc = 0;
                k = 0;
            }
        }
        if k > 0 {
            self = self.u64(acc);
        }
        self
    }
    pub fn get(self) -> u64 {
        self.0
    }
}

impl Default for Digest {
    fn default() -> Self {
        Digest::new()
    }
}
