//! Formatting traits driven the ways `format!("{}", x)` does not: format-spec flags and writers that fail.
//!
//! * flags: `{:#}`, width / fill / alignment, `+`, `0`.  The properties fix the *text* of a value; whether a
//!   formatter honours padding is its own business, so the monitor demands that the output is the canonical text
//!   (after `(` an optional `0x` / `0b` for `#`, in front an optional `+` for `+`) with nothing around it but the
//!   fill character of the spec (blank by default, `0` for the zero flag).
//! * fault injection: a `fmt::Write` sink that accepts `cap` bytes and then returns `Err`.  A formatter must not
//!   panic, must have written a prefix of the canonical text, may only report `Ok` when everything was written,
//!   and — the sink's failure being the caller's business — must print the next value as if nothing had happened.

use std::fmt::{self, Binary, Display, LowerHex, Write};

pub struct Limited {
    pub buf: String,
    pub cap: usize,
    pub failed: bool,
}

impl Limited {
    pub fn new(cap: usize) -> Limited {
        Limited { buf: String::new(), cap, failed: false }
    }
}

impl Write for Limited {
    fn write_str(&mut self, s: &str) -> fmt::Result {
        for ch in s.chars() {
            if self.buf.len() + ch.len_utf8() > self.cap {
                self.failed = true;
                return Err(fmt::Error);
            }
            self.buf.push(ch);
        }
        Ok(())
    }
}

/// The characters a formatter may legitimately put around the text for the spec `label`: the fill character of
/// the spec (a blank when none is given), `0` for the zero flag, and a `+` sign in front for the `+` flag.
fn allowed_padding(label: &str) -> (Vec<char>, bool) {
    let inner: Vec<char> = label.trim_start_matches("{:").trim_end_matches('}').chars().collect();
    let mut fills = vec![' '];
    let mut i = 0;
    if inner.len() >= 2 && matches!(inner[1], '<' | '>' | '^') {
        fills.push(inner[0]);
        i = 2;
    } else if !inner.is_empty() && matches!(inner[0], '<' | '>' | '^') {
        i = 1;
    }
    let mut plus = false;
    while i < inner.len() && matches!(inner[i], '+' | '#') {
        if inner[i] == '+' {
            plus = true;
        }
        i += 1;
    }
    if i < inner.len() && inner[i] == '0' {
        fills.push('0');
    }
    (fills, plus)
}

/// does `out` consist of the canonical text (after `(`, a radix prefix is tolerated for `#`) with nothing but
/// padding of the spec around it?
fn carries(out: &str, canonical: &str, radix_prefix: Option<&str>, label: &str) -> bool {
    let (fills, plus) = allowed_padding(label);
    let mut candidates: Vec<String> = vec![canonical.to_string()];
    if let Some(p) = radix_prefix {
        if let Some(i) = canonical.find('(') {
            candidates.push(format!("{}{}{}", &canonical[..=i], p, &canonical[i + 1..]));
        }
        candidates.push(format!("{}{}", p, canonical));
    }
    if plus {
        let more: Vec<String> = candidates.iter().map(|c| format!("+{}", c)).collect();
        candidates.extend(more);
    }
    for c in &candidates {
        let mut from = 0;
        while let Some(k) = out[from..].find(c.as_str()) {
            let at = from + k;
            let before = &out[..at];
            let after = &out[at + c.len()..];
            if before.chars().all(|ch| fills.contains(&ch)) && after.chars().all(|ch| fills.contains(&ch)) {
                return true;
            }
            from = at + std::cmp::max(1, c.chars().next().map(|ch| ch.len_utf8()).unwrap_or(1));
            if from >= out.len() {
                break;
            }
        }
        if c.is_empty() && out.chars().all(|ch| fills.contains(&ch)) {
            return true;
        }
    }
    false
}

macro_rules! spec_probe {
    ($name:ident, $tr:ident, $( ($spec:literal, $label:literal) ),* ) => {
        /// (label, output) for every format spec of the list
        pub fn $name<D: $tr>(d: &D) -> Vec<(&'static str, String)> {
            vec![ $( ($label, format!($spec, d)) ),* ]
        }
    };
}

spec_probe!(display_specs, Display,
    ("{:#}", "{:#}"), ("{:>70}", "{:>70}"), ("{:<70}", "{:<70}"), ("{:^70}", "{:^70}"), ("{:*^9}", "{:*^9}"),
    ("{:+}", "{:+}"), ("{:070}", "{:070}"), ("{:#>3}", "{:#>3}"), ("{:1}", "{:1}"));
spec_probe!(hex_specs, LowerHex,
    ("{:#x}", "{:#x}"), ("{:>70x}", "{:>70x}"), ("{:<70x}", "{:<70x}"), ("{:^70x}", "{:^70x}"), ("{:*^9x}", "{:*^9x}"),
    ("{:+x}", "{:+x}"), ("{:070x}", "{:070x}"), ("{:#070x}", "{:#070x}"), ("{:1x}", "{:1x}"));
spec_probe!(bin_specs, Binary,
    ("{:#b}", "{:#b}"), ("{:>70b}", "{:>70b}"), ("{:<70b}", "{:<70b}"), ("{:^70b}", "{:^70b}"), ("{:*^9b}", "{:*^9b}"),
    ("{:+b}", "{:+b}"), ("{:070b}", "{:070b}"), ("{:#070b}", "{:#070b}"), ("{:1b}", "{:1b}"));

spec_probe!(display_specs_precise, Display,
    ("{:.0}", "{:.0}"), ("{:.4}", "{:.4}"), ("{:12.3}", "{:12.3}"), ("{:<9.300}", "{:<9.300}"), ("{:>300}", "{:>300}"), ("{:_^41}", "{:_^41}"));
spec_probe!(hex_specs_precise, LowerHex,
    ("{:.0x}", "{:.0x}"), ("{:.4x}", "{:.4x}"), ("{:12.3x}", "{:12.3x}"), ("{:<9.300x}", "{:<9.300x}"), ("{:>300x}", "{:>300x}"), ("{:_^41x}", "{:_^41x}"));
spec_probe!(bin_specs_precise, Binary,
    ("{:.0b}", "{:.0b}"), ("{:.4b}", "{:.4b}"), ("{:12.3b}", "{:12.3b}"), ("{:<9.300b}", "{:<9.300b}"), ("{:>300b}", "{:>300b}"), ("{:_^41b}", "{:_^41b}"));

/// All spec outputs of a table type in one list (for differential use: two types printing the same function must
/// give the same strings under every spec, whatever those strings are).
pub fn all_spec_outputs<D: Display + LowerHex + Binary>(d: &D) -> Vec<(&'static str, String)> {
    let mut v = display_specs(d);
    v.extend(hex_specs(d));
    v.extend(bin_specs(d));
    v.extend(display_specs_precise(d));
    v.extend(hex_specs_precise(d));
    v.extend(bin_specs_precise(d));
    v
}

/// Judge the outputs of a spec probe: every output must carry the canonical text.  Returns the number of
/// outputs checked or (spec, output) of the first that does not.
pub fn judge_specs(outs: &[(&'static str, String)], canonical: &str, radix_prefix: Option<&str>) -> Result<usize, (String, String)> {
    for (label, out) in outs {
        let p = if label.contains('#') { radix_prefix } else { None };
        if !carries(out, canonical, p, label) {
            return Err((label.to_string(), out.clone()));
        }
    }
    Ok(outs.len())
}

/// Failing-writer probe for one way of writing `d` (the closure performs the `write!`).
/// `again` prints the value normally afterwards.  Returns checks made or a description of what went wrong.
pub fn judge_failing(
    canonical: &str,
    caps: &[usize],
    write_into: &dyn Fn(&mut Limited) -> fmt::Result,
    again: &dyn Fn() -> String,
) -> Result<usize, String> {
    let mut checks = 0;
    for &cap in caps {
        let mut w = Limited::new(cap);
        let r = write_into(&mut w);
        checks += 1;
        if !canonical.starts_with(&w.buf) {
            return Err(format!("with a writer failing after {} bytes, {:?} was written, not a prefix of {:?}", cap, w.buf, canonical));
        }
        match r {
            Ok(()) => {
                if w.buf != canonical {
                    return Err(format!("with a writer failing after {} bytes, Ok was returned but only {:?} of {:?} was written", cap, w.buf, canonical));
                }
            }
            Err(_) => {
                if cap >= canonical.len() {
                    return Err(format!("Err returned although the writer accepts {} bytes and the text {:?} has {}", cap, canonical, canonical.len()));
                }
            }
        }
        let after = again();
        if after != canonical {
            return Err(format!("after a write that failed at byte {}, the value prints as {:?} instead of {:?}", cap, after, canonical));
        }
    }
    Ok(checks)
}

/// capacities around the interesting points of a text of `len` bytes
pub fn caps_for(len: usize, salt: u64) -> Vec<usize> {
    let mut v = vec![0, 1, len / 2, len.saturating_sub(1), len, len + 1];
    v.push((salt as usize) % (len + 1));
    v.push(((salt >> 20) as usize) % (len + 1));
    v.sort();
    v.dedup();
    v
}
