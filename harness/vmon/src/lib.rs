//! vmon: runtime monitors for volute (see /verif/DESIGN.md).

pub mod canon;
pub mod ctx;
pub mod fmtprobe;
pub mod gen;
pub mod iterprobe;
pub mod json;
pub mod model;
pub mod obs;
pub mod ops;
pub mod rng;
pub mod tbl;
pub mod twolevel;

pub use ctx::{guard, run_events_concurrently, run_mix, run_mix_concurrent, run_sharded, silence_panics, Cli, Ctx, Ev, Outcome};
pub use json::Json;
pub use model::Model;
pub use rng::{Digest, Rng};
pub use tbl::Tbl;
