//! The catalogue of public operations common to `Lut` and `LutN`, runnable on either type with
//! the same arguments and returning a comparable result (used by C10 and C17).

use crate::ctx::Ev;
use crate::model::{Class, Model};
use crate::rng::Rng;
use crate::tbl::{BinOp, Tbl};

#[derive(Clone, Debug, PartialEq)]
pub enum Res {
    Table(usize, Vec<u64>),
    Tables(Vec<(usize, Vec<u64>)>),
    Canon(Vec<u64>, Vec<u8>, u32),
    Str(String),
    Strs(Vec<String>),
    Int(u64),
    Bool(bool),
    Class(Class),
    Err,
    None,
}

pub fn tab<T: Tbl>(t: &T) -> Res {
    Res::Table(t.nv(), t.t_blocks().to_vec())
}

pub fn tabs<T: Tbl>(ts: &[T]) -> Res {
    Res::Tables(ts.iter().map(|t| (t.nv(), t.t_blocks().to_vec())).collect())
}

pub const OPS: [&str; 47] = [
    "zero", "one", "nth_var", "parity", "majority", "threshold", "equals", "symmetric",
    "not-form", "and-form", "or-form", "xor-form",
    "flip", "flip_inplace", "swap", "swap_inplace", "swap_adjacent", "swap_adjacent_inplace",
    "cofactors", "from_cofactors",
    "value", "get_bit", "set_bit", "unset_bit", "set_value", "sizes", "from_blocks",
    "p_canon", "n_canon", "npn_canon",
    "top_decomposition", "is_pos_unate", "is_neg_unate", "bdd_complexity",
    "to_hex_string", "to_bin_string", "display", "from_hex_string",
    "cmp", "ops-compare", "all_functions-prefix", "iter_from", "sort", "hash-consistency",
    "from_hex(print-of-other)", "clone-eq", "default",
];

/// Run one operation on type T.  `ev` carries: tabs [a, b], ints [i, j, k, m, c, form], strs [s].
pub fn run_op<T: Tbl>(ev: &Ev) -> Res {
    let n = ev.n;
    // operands with a history: built through a construction route chosen by the event (tbl.rs, t_via_route)
    let d = ev.digest();
    let a = T::t_via_route(n, &ev.tabs[0], d).0;
    let b = T::t_via_route(n, &ev.tabs[1], d.rotate_left(17)).0;
    let (i, j, k, m, c, form) = (ev.i(0), ev.i(1), ev.i(2), ev.i(3), ev.i(4), ev.i(5));
    let s = &ev.strs[0];
    match ev.op.as_str() {
        "zero" => tab(&T::t_zero(n)),
        "one" => tab(&T::t_one(n)),
        "default" => {
            if n == 0 {
                tab(&T::t_default(0))
            } else {
                Res::None
            }
        }
        "nth_var" => tab(&T::t_nth_var(n, i)),
        "parity" => tab(&T::t_parity(n)),
        "majority" => tab(&T::t_majority(n)),
        "threshold" => tab(&T::t_threshold(n, k)),
        "equals" => tab(&T::t_equals(n, k)),
        "symmetric" => tab(&T::t_symmetric(n, c)),
        "not-form" => {
            let (r, x) = T::t_not_form(form % 4, &a);
            tabs(&[r, x])
        }
        "and-form" | "or-form" | "xor-form" => {
            let op = match ev.op.as_str() {
                "and-form" => BinOp::And,
                "or-form" => BinOp::Or,
                _ => BinOp::Xor,
            };
            let (r, x, y) = T::t_bin_form(op, form % 8, &a, &b);
            tabs(&[r, x, y])
        }
        "flip" => tab(&a.t_flip(i)),
        "flip_inplace" => {
            let mut x = a.clone();
            x.t_flip_inplace(i);
            tab(&x)
        }
        "swap" => tab(&a.t_swap(i, j)),
        "swap_inplace" => {
            let mut x = a.clone();
            x.t_swap_inplace(i, j);
            tab(&x)
        }
        "swap_adjacent" => {
            let mut x = a.clone();
            let r = x.t_swap_adjacent(i);
            tabs(&[r, x])
        }
        "swap_adjacent_inplace" => {
            let mut x = a.clone();
            x.t_swap_adjacent_inplace(i);
            tab(&x)
        }
        "cofactors" => {
            let (c0, c1) = a.t_cofactors(i);
            tabs(&[c0, c1])
        }
        "from_cofactors" => tab(&T::t_from_cofactors(&a, &b, i)),
        "value" => Res::Bool(a.t_value(m)),
        "get_bit" => Res::Bool(a.t_get_bit(m)),
        "set_bit" => {
            let mut x = a.clone();
            x.t_set_bit(m);
            tab(&x)
        }
        "unset_bit" => {
            let mut x = a.clone();
            x.t_unset_bit(m);
            tab(&x)
        }
        "set_value" => {
            let mut x = a.clone();
            x.t_set_value(m, form % 2 == 0);
            tab(&x)
        }
        "sizes" => Res::Strs(vec![a.nv().to_string(), a.t_num_bits().to_string(), a.t_num_blocks().to_string()]),
        "from_blocks" => tab(&a),
        "p_canon" => {
            let (r, p) = a.t_p_canon();
            Res::Canon(r.t_blocks().to_vec(), p, 0)
        }
        "n_canon" => {
            let (r, f) = a.t_n_canon();
            Res::Canon(r.t_blocks().to_vec(), vec![], f)
        }
        "npn_canon" => {
            let (r, p, f) = a.t_npn_canon();
            Res::Canon(r.t_blocks().to_vec(), p, f)
        }
        "top_decomposition" => Res::Class(a.t_top_decomposition(i)),
        "is_pos_unate" => Res::Bool(a.t_is_pos_unate(i)),
        "is_neg_unate" => Res::Bool(a.t_is_neg_unate(i)),
        "bdd_complexity" => {
            let l = match form % 4 {
                0 => vec![],
                1 => vec![a.clone()],
                2 => vec![a.clone(), b.clone()],
                _ => vec![b.clone(), a.clone(), T::t_not_form(0, &a).0],
            };
            Res::Int(T::t_bdd_complexity(&l) as u64)
        }
        "to_hex_string" => Res::Str(a.t_to_hex_string()),
        "to_bin_string" => Res::Str(a.t_to_bin_string()),
        "display" => Res::Strs(vec![format!("{}", a), format!("{:x}", a), format!("{:b}", a), format!("{:?}", a.t_blocks())]),
        "from_hex_string" => match T::t_from_hex_string(n, s) {
            Ok(t) => tab(&t),
            Err(()) => Res::Err,
        },
        "from_hex(print-of-other)" => match T::t_from_hex_string(n, &b.t_to_hex_string()) {
            Ok(t) => tab(&t),
            Err(()) => Res::Err,
        },
        "cmp" => Res::Str(format!("{:?} {:?}", a.cmp(&b), a.partial_cmp(&b))),
        "ops-compare" => Res::Strs(vec![(a < b).to_string(), (a <= b).to_string(), (a > b).to_string(), (a >= b).to_string(), (a == b).to_string(), (a != b).to_string()]),
        "all_functions-prefix" => {
            let v: Vec<T> = T::t_all_functions(n).take(k % 70 + 1).collect();
            tabs(&v)
        }
        "iter_from" => {
            let v: Vec<T> = T::t_iter_from(&a).take(3).collect();
            tabs(&v)
        }
        "sort" => {
            let mut v = vec![a.clone(), b.clone(), T::t_not_form(0, &a).0, T::t_zero(n), T::t_one(n), b.clone()];
            v.sort();
            tabs(&v)
        }
        "hash-consistency" => {
            use std::hash::Hasher;
            let h = |t: &T| {
                let mut s = std::collections::hash_map::DefaultHasher::new();
                t.hash(&mut s);
                s.finish()
            };
            // equal values hash equal inside one type (the two types need not share hash values)
            let a2 = T::t_from_blocks(n, a.t_blocks());
            Res::Bool(h(&a) == h(&a2) && (a != b || h(&a) == h(&b)))
        }
        "clone-eq" => Res::Bool(a.clone() == a && (a == b) == (a.t_blocks() == b.t_blocks())),
        other => panic!("harness: unknown op {}", other),
    }
}

pub fn diff_ev(op: &str, n: usize, a: &[u64], b: &[u64], rng: &mut Rng) -> Ev {
    let size = 1usize << n;
    let i = if n > 0 { rng.below(n) } else { 0 };
    // for the operations that look at one variable, half of the time the table is independent of exactly
    // that variable except on one assignment near the end of the table (early exits must not stop too soon)
    let mut a_owned: Vec<u64> = a.to_vec();
    if n > 0 && matches!(op, "top_decomposition" | "is_pos_unate" | "is_neg_unate" | "cofactors" | "flip" | "flip_inplace") && rng.bool() {
        for m in 0..size {
            if m & (1 << i) != 0 {
                let src = m & !(1usize << i);
                let bit = (a_owned[src / 64] >> (src % 64)) & 1;
                a_owned[m / 64] = (a_owned[m / 64] & !(1u64 << (m % 64))) | (bit << (m % 64));
            }
        }
        let pos = size - 1 - rng.below(std::cmp::min(size, 64));
        a_owned[pos / 64] ^= 1u64 << (pos % 64);
    }
    let a: &[u64] = &a_owned;
    let j = if n > 0 { rng.below(n) } else { 0 };
    let i = if op.starts_with("swap_adjacent") && n > 1 { i % (n - 1) } else { i };
    let k = match rng.below(5) {
        0 => n + rng.below(3),
        1 => 63 + rng.below(3),
        2 => usize::MAX,
        _ => rng.below(n + 1),
    };
    let c = rng.next_u64() as usize;
    let s = match rng.below(6) {
        0 => Model::from_blocks(n, a).to_hex(),
        1 => Model::from_blocks(n, b).to_hex().to_uppercase(),
        2 => format!("+{}", &Model::from_blocks(n, a).to_hex()[1..]),
        3 => "f".repeat(rng.below(6)),
        4 => format!("{}é", &Model::from_blocks(n, a).to_hex()),
        _ => {
            let mut h = Model::from_blocks(n, a).to_hex();
            h.pop();
            h.push('g');
            h
        }
    };
    Ev::new(op, "diff", n).tab(a).tab(b).int(i).int(j).int(k).int(rng.below(size)).int(c).int(rng.below(64)).st(&s)
}

pub fn valid_for(op: &str, n: usize) -> bool {
    match op {
        "nth_var" | "flip" | "flip_inplace" | "swap" | "swap_inplace" | "cofactors" | "from_cofactors" | "top_decomposition" | "is_pos_unate" | "is_neg_unate" => n >= 1,
        "swap_adjacent" | "swap_adjacent_inplace" => n >= 2,
        "p_canon" => n <= 8,
        "n_canon" => true,
        "npn_canon" => n <= 7,
        _ => true,
    }
}

