//! Reference model: a Boolean function is the vector of its values, one `bool` per assignment.
//! Every oracle below is written from the mathematical definition, assignment by assignment.
//! No code is shared with volute; no packed-word tricks.

use std::cmp::Ordering;
use std::collections::HashMap;

#[derive(Clone, PartialEq, Eq, Hash, Debug)]
pub struct Model {
    pub n: usize,
    pub bits: Vec<bool>,
}

pub fn popcount(m: usize) -> usize {
    let mut c = 0;
    let mut x = m;
    while x != 0 {
        c += x % 2;
        x /= 2;
    }
    c
}

pub fn bit_of(m: usize, i: usize) -> bool {
    (m >> i) % 2 == 1
}

/// Decomposition classes of the statement of C06, by name.
#[derive(Clone, Copy, PartialEq, Eq, Debug, Hash, PartialOrd, Ord)]
pub enum Class {
    None,
    Independent,
    Identity,
    Negation,
    And,
    Or,
    Le,
    Lt,
    Xor,
}

impl Class {
    pub fn name(self) -> &'static str {
        match self {
            Class::None => "None",
            Class::Independent => "Independent",
            Class::Identity => "Identity",
            Class::Negation => "Negation",
            Class::And => "And",
            Class::Or => "Or",
            Class::Le => "Le",
            Class::Lt => "Lt",
            Class::Xor => "Xor",
        }
    }
    pub const ALL: [Class; 9] = [
        Class::None,
        Class::Independent,
        Class::Identity,
        Class::Negation,
        Class::And,
        Class::Or,
        Class::Le,
        Class::Lt,
        Class::Xor,
    ];
}

impl Model {
    pub fn size(&self) -> usize {
        self.bits.len()
    }

    pub fn from_fn(n: usize, f: impl Fn(usize) -> bool) -> Model {
        Model {
            n,
            bits: (0..1usize << n).map(f).collect(),
        }
    }

    /// Bit m of the function is bit (m mod 64) of word (m div 64): the definition of the block view.
    pub fn from_blocks(n: usize, blocks: &[u64]) -> Model {
        Model::from_fn(n, |m| (blocks[m / 64] >> (m % 64)) % 2 == 1)
    }

    /// The well-formed block view of this function: max(1, 2^n/64) words, nothing above 2^n.
    pub fn to_blocks(&self) -> Vec<u64> {
        let words = std::cmp::max(1, self.size() / 64);
        let mut v = vec![0u64; words];
        for (m, b) in self.bits.iter().enumerate() {
            if *b {
                v[m / 64] |= 1u64 << (m % 64);
            }
        }
        v
    }

    pub fn constant(n: usize, b: bool) -> Model {
        Model::from_fn(n, |_| b)
    }
    pub fn var(n: usize, i: usize) -> Model {
        assert!(i < n);
        Model::from_fn(n, |m| bit_of(m, i))
    }
    /// value on m = bit popcount(m) of `counts` (bits of `counts` above n are irrelevant)
    pub fn symmetric(n: usize, counts: u64) -> Model {
        Model::from_fn(n, |m| (counts >> popcount(m)) % 2 == 1)
    }
    pub fn equals(n: usize, k: usize) -> Model {
        Model::from_fn(n, |m| popcount(m) == k)
    }
    pub fn threshold(n: usize, k: usize) -> Model {
        Model::from_fn(n, |m| popcount(m) >= k)
    }
    pub fn parity(n: usize) -> Model {
        Model::from_fn(n, |m| popcount(m) % 2 == 1)
    }
    pub fn majority(n: usize) -> Model {
        Model::threshold(n, (n + 1) / 2)
    }

    pub fn not(&self) -> Model {
        Model::from_fn(self.n, |m| !self.bits[m])
    }
    pub fn and(&self, o: &Model) -> Model {
        assert_eq!(self.n, o.n);
        Model::from_fn(self.n, |m| self.bits[m] && o.bits[m])
    }
    pub fn or(&self, o: &Model) -> Model {
        assert_eq!(self.n, o.n);
        Model::from_fn(self.n, |m| self.bits[m] || o.bits[m])
    }
    pub fn xor(&self, o: &Model) -> Model {
        assert_eq!(self.n, o.n);
        Model::from_fn(self.n, |m| self.bits[m] != o.bits[m])
    }

    pub fn is_const(&self) -> Option<bool> {
        let b = self.bits[0];
        if self.bits.iter().all(|x| *x == b) {
            Some(b)
        } else {
            None
        }
    }
    pub fn is_literal(&self) -> bool {
        (0..self.n).any(|i| {
            let v = Model::var(self.n, i);
            *self == v || *self == v.not()
        })
    }
    /// neither constant nor a literal
    pub fn nontrivial(&self) -> bool {
        self.is_const().is_none() && !self.is_literal()
    }
    pub fn count_ones(&self) -> usize {
        self.bits.iter().filter(|b| **b).count()
    }
    pub fn depends_on(&self, i: usize) -> bool {
        (0..self.size()).any(|m| self.bits[m] != self.bits[m ^ (1 << i)])
    }

    /// g(x) = f(x with bit i complemented)
    pub fn flip(&self, i: usize) -> Model {
        assert!(i < self.n);
        Model::from_fn(self.n, |x| self.bits[x ^ (1 << i)])
    }
    /// g(x) = f(x with bits i and j exchanged)
    pub fn swap(&self, i: usize, j: usize) -> Model {
        assert!(i < self.n && j < self.n);
        Model::from_fn(self.n, |x| {
            let bi = bit_of(x, i);
            let bj = bit_of(x, j);
            let mut y = x;
            if bi != bj {
                y ^= (1 << i) | (1 << j);
            }
            self.bits[y]
        })
    }
    /// c_b(x) = f(x with bit i := b)
    pub fn cofactor(&self, i: usize, b: bool) -> Model {
        assert!(i < self.n);
        Model::from_fn(self.n, |x| {
            let y = if b { x | (1 << i) } else { x & !(1usize << i) };
            self.bits[y]
        })
    }
    /// h(x) = if x_i then c1(x) else c0(x)
    pub fn from_cofactors(c0: &Model, c1: &Model, i: usize) -> Model {
        assert_eq!(c0.n, c1.n);
        assert!(i < c0.n);
        Model::from_fn(c0.n, |x| if bit_of(x, i) { c1.bits[x] } else { c0.bits[x] })
    }

    /// Numeric order of the 2^n-bit numbers whose most significant bit is the all-ones assignment.
    pub fn cmp_num(&self, o: &Model) -> Ordering {
        assert_eq!(self.n, o.n);
        for m in (0..self.size()).rev() {
            if self.bits[m] != o.bits[m] {
                return if o.bits[m] { Ordering::Less } else { Ordering::Greater };
            }
        }
        Ordering::Equal
    }
    /// Order of the statement of C08: number of variables first, then numeric.
    pub fn cmp_full(&self, o: &Model) -> Ordering {
        if self.n != o.n {
            return self.n.cmp(&o.n);
        }
        self.cmp_num(o)
    }
    /// The numeric successor, or None for the all-ones table.
    pub fn successor(&self) -> Option<Model> {
        let mut r = self.clone();
        for m in 0..r.size() {
            if r.bits[m] {
                r.bits[m] = false;
            } else {
                r.bits[m] = true;
                return Some(r);
            }
        }
        None
    }
    /// The table with integer value k (k < 2^(2^n), so only for small tables)
    pub fn from_int(n: usize, k: u128) -> Model {
        Model::from_fn(n, |m| m < 128 && (k >> m) % 2 == 1)
    }

    pub fn hex_width(n: usize) -> usize {
        std::cmp::max(1, (1usize << n) / 4)
    }
    /// Most significant assignment first, one character per assignment.
    pub fn to_bin(&self) -> String {
        (0..self.size())
            .rev()
            .map(|m| if self.bits[m] { '1' } else { '0' })
            .collect()
    }
    /// Most significant digit first; one digit holds 4 assignments (or all 2^n of them for n < 2).
    pub fn to_hex(&self) -> String {
        let w = Model::hex_width(self.n);
        let mut s = String::new();
        for d in (0..w).rev() {
            let mut v = 0u32;
            for k in 0..4 {
                let m = d * 4 + k;
                if m < self.size() && self.bits[m] {
                    v += 1 << k;
                }
            }
            s.push(std::char::from_digit(v, 16).unwrap());
        }
        s
    }
    /// Parsing oracle: Some(function) iff `s` is exactly `width` hex digits (either case) whose value
    /// fits in 2^n bits; None otherwise.
    pub fn parse_hex(n: usize, s: &str) -> Option<Model> {
        let w = Model::hex_width(n);
        let chars: Vec<char> = s.chars().collect();
        if chars.len() != w {
            return None;
        }
        let size = 1usize << n;
        let mut bits = vec![false; size];
        for (pos, c) in chars.iter().enumerate() {
            let d = w - 1 - pos;
            let v = match c {
                '0'..='9' => *c as u32 - '0' as u32,
                'a'..='f' => *c as u32 - 'a' as u32 + 10,
                'A'..='F' => *c as u32 - 'A' as u32 + 10,
                _ => return None,
            };
            for k in 0..4 {
                if (v >> k) % 2 == 1 {
                    let m = d * 4 + k;
                    if m >= size {
                        return None;
                    }
                    bits[m] = true;
                }
            }
        }
        Some(Model { n, bits })
    }

    /// Algebraic normal form: a_S = XOR of f over all assignments contained in S.
    pub fn anf(&self) -> Vec<bool> {
        let size = self.size();
        let mut a = vec![false; size];
        for s in 0..size {
            // enumerate sub-masks of s
            let mut acc = false;
            let mut sub = s;
            loop {
                acc ^= self.bits[sub];
                if sub == 0 {
                    break;
                }
                sub = (sub - 1) & s;
            }
            a[s] = acc;
        }
        a
    }

    /// The function g with g(y) = f(x) xor out, where x[perm[i]] = y[i] xor mask[i].
    pub fn apply_npn(&self, perm: &[usize], mask: usize, out: bool) -> Model {
        assert_eq!(perm.len(), self.n);
        Model::from_fn(self.n, |y| {
            let mut x = 0usize;
            for i in 0..self.n {
                if bit_of(y, i) != bit_of(mask, i) {
                    x |= 1 << perm[i];
                }
            }
            self.bits[x] != out
        })
    }

    /// The class of the statement of C06, following its priority list literally.
    pub fn decomposition(&self, v: usize) -> Class {
        let c0 = self.cofactor(v, false);
        let c1 = self.cofactor(v, true);
        let zero = Model::constant(self.n, false);
        let one = Model::constant(self.n, true);
        if c0 == c1 {
            Class::Independent
        } else if c0 == zero && c1 == one {
            Class::Identity
        } else if c0 == one && c1 == zero {
            Class::Negation
        } else if c0 == zero {
            Class::And
        } else if c1 == one {
            Class::Or
        } else if c0 == one {
            Class::Le
        } else if c1 == zero {
            Class::Lt
        } else if c0 == c1.not() {
            Class::Xor
        } else {
            Class::None
        }
    }
    pub fn pos_unate(&self, v: usize) -> bool {
        let c0 = self.cofactor(v, false);
        let c1 = self.cofactor(v, true);
        (0..self.size()).all(|m| !c0.bits[m] || c1.bits[m])
    }
    pub fn neg_unate(&self, v: usize) -> bool {
        let c0 = self.cofactor(v, false);
        let c1 = self.cofactor(v, true);
        (0..self.size()).all(|m| !c1.bits[m] || c0.bits[m])
    }
}

// ---------------------------------------------------------------------------------------------
// Shared complement-edge ROBDD (textbook construction with a unique table)
// ---------------------------------------------------------------------------------------------

/// An edge: node id (0 = the terminal) and a complement flag.
type Edge = (u32, bool);

pub struct Bdd {
    unique: HashMap<(usize, Edge, Edge), u32>,
    nodes: Vec<(usize, Edge, Edge)>,
    memo: HashMap<(usize, Vec<bool>), Edge>,
}

impl Bdd {
    pub fn new() -> Bdd {
        Bdd {
            unique: HashMap::new(),
            // node 0 is the terminal (constant false when reached through a regular edge)
            nodes: vec![(usize::MAX, (0, false), (0, false))],
            memo: HashMap::new(),
        }
    }

    fn mk(&mut self, var: usize, lo: Edge, hi: Edge) -> Edge {
        if lo == hi {
            return lo;
        }
        // normal form: the low edge is regular; otherwise complement both and the result
        let (lo, hi, neg) = if lo.1 {
            ((lo.0, false), (hi.0, !hi.1), true)
        } else {
            (lo, hi, false)
        };
        let key = (var, lo, hi);
        let id = match self.unique.get(&key) {
            Some(id) => *id,
            None => {
                let id = self.nodes.len() as u32;
                self.nodes.push(key);
                self.unique.insert(key, id);
                id
            }
        };
        (id, neg)
    }

    /// Shannon expansion with variable k-1 on top of the 2^k-entry slice.
    fn build(&mut self, k: usize, slice: &[bool]) -> Edge {
        debug_assert_eq!(slice.len(), 1 << k);
        if k == 0 {
            return (0, slice[0]);
        }
        let key = (k, slice.to_vec());
        if let Some(e) = self.memo.get(&key) {
            return *e;
        }
        let half = slice.len() / 2;
        let lo = self.build(k - 1, &slice[..half]);
        let hi = self.build(k - 1, &slice[half..]);
        let e = self.mk(k - 1, lo, hi);
        self.memo.insert(key, e);
        e
    }

    pub fn add(&mut self, f: &Model) -> Edge {
        self.build(f.n, &f.bits)
    }

    pub fn num_nodes(&self) -> usize {
        self.nodes.len() - 1
    }

    /// Internal nodes that denote a single literal: both children terminal.
    pub fn num_literal_nodes(&self) -> usize {
        self.nodes[1..]
            .iter()
            .filter(|(_, lo, hi)| lo.0 == 0 && hi.0 == 0)
            .count()
    }

    /// The count of the statement of C07.
    pub fn count(&self) -> usize {
        self.num_nodes() - self.num_literal_nodes()
    }
}

impl Default for Bdd {
    fn default() -> Self {
        Bdd::new()
    }
}

pub fn bdd_count(fs: &[Model]) -> usize {
    let mut b = Bdd::new();
    for f in fs {
        b.add(f);
    }
    b.count()
}

// ---------------------------------------------------------------------------------------------
// Orbit minimum (P / N / NPN), independent enumeration
// ---------------------------------------------------------------------------------------------

#[derive(Clone, Copy, PartialEq, Eq, Debug, Hash, PartialOrd, Ord)]
pub enum Group {
    P,
    N,
    Npn,
}

impl Group {
    pub fn name(self) -> &'static str {
        match self {
            Group::P => "p",
            Group::N => "n",
            Group::Npn => "npn",
        }
    }
    pub const ALL: [Group; 3] = [Group::P, Group::N, Group::Npn];
}

/// Lexicographic next permutation; false when `p` was the last one.
pub fn next_permutation(p: &mut [usize]) -> bool {
    let n = p.len();
    if n < 2 {
        return false;
    }
    let mut i = n - 1;
    while i > 0 && p[i - 1] >= p[i] {
        i -= 1;
    }
    if i == 0 {
        return false;
    }
    let mut j = n - 1;
    while p[j] <= p[i - 1] {
        j -= 1;
    }
    p.swap(i - 1, j);
    p[i..].reverse();
    true
}

pub struct OrbitMin {
    pub min: Model,
    /// number of group elements visited
    pub visited: u64,
    /// number of group elements that attain the minimum (size of the stabiliser coset)
    pub attained: u64,
}

/// Minimum over the orbit of f under the group, in numeric order.
/// Permutations by lexicographic successor, polarities by plain counting.
pub fn orbit_min(f: &Model, g: Group) -> OrbitMin {
    let n = f.n;
    let size = f.size();
    let mut best = f.bits.clone();
    let mut visited = 0u64;
    let mut attained = 0u64;
    let mut perm: Vec<usize> = (0..n).collect();
    let masks: usize = if g == Group::P { 1 } else { size };
    let outs: usize = if g == Group::P { 1 } else { 2 };
    let mut pidx = vec![0usize; size];
    let mut cand = vec![false; size];
    loop {
        // pidx[y] = the assignment x with x[perm[i]] = y[i]
        for y in 0..size {
            let mut x = 0usize;
            for i in 0..n {
                if bit_of(y, i) {
                    x |= 1 << perm[i];
                }
            }
            pidx[y] = x;
        }
        for m in 0..masks {
            let pm = pidx[m];
            for o in 0..outs {
                let ob = o == 1;
                visited += 1;
                // compare from the most significant assignment downward
                let mut y = size;
                let mut ord = Ordering::Equal;
                while y > 0 {
                    y -= 1;
                    let b = f.bits[pidx[y] ^ pm] != ob;
                    if b != best[y] {
                        ord = if best[y] { Ordering::Less } else { Ordering::Greater };
                        break;
                    }
                }
                match ord {
                    Ordering::Less => {
                        for (yy, c) in cand.iter_mut().enumerate() {
                            *c = f.bits[pidx[yy] ^ pm] != ob;
                        }
                        std::mem::swap(&mut best, &mut cand);
                        attained = 1;
                    }
                    Ordering::Equal => attained += 1,
                    Ordering::Greater => {}
                }
            }
        }
        if g == Group::N || !next_permutation(&mut perm) {
            break;
        }
    }
    OrbitMin {
        min: Model { n, bits: best },
        visited,
        attained,
    }
}

#[cfg(test)]
mod tests {
    use super::*;

    #[test]
    fn hex_and_bin() {
        let m = Model::from_blocks(3, &[0xe8]);
        assert_eq!(m.to_hex(), "e8");
        assert_eq!(m.to_bin(), "11101000");
        assert_eq!(Model::parse_hex(3, "E8"), Some(m.clone()));
        assert_eq!(Model::parse_hex(3, "e"), None);
        assert_eq!(Model::parse_hex(1, "3"), Some(Model::constant(1, true)));
        assert_eq!(Model::parse_hex(1, "4"), None);
        assert_eq!(Model::parse_hex(0, "1"), Some(Model::constant(0, true)));
        assert_eq!(Model::parse_hex(0, "2"), None);
        assert_eq!(Model::majority(3), m);
        assert_eq!(m.to_blocks(), vec![0xe8]);
    }

    #[test]
    fn bdd_small() {
        // and of two variables: one node above the literal
        let a = Model::var(2, 0).and(&Model::var(2, 1));
        assert_eq!(bdd_count(&[a.clone()]), 1);
        assert_eq!(bdd_count(&[a.clone(), a.not()]), 1);
        assert_eq!(bdd_count(&[Model::var(3, 2)]), 0);
        assert_eq!(bdd_count(&[Model::parity(3)]), 2);
        assert_eq!(bdd_count(&[]), 0);
    }

    #[test]
    fn orbit() {
        let f = Model::var(3, 2);
        assert_eq!(orbit_min(&f, Group::P).min, Model::var(3, 0));
        assert_eq!(orbit_min(&f, Group::P).visited, 6);
        let r = orbit_min(&f, Group::Npn);
        assert_eq!(r.visited, 96);
        assert_eq!(r.min, Model::var(3, 2).not());
        let mut p = vec![0, 1, 2];
        let mut c = 1;
        while next_permutation(&mut p) {
            c += 1;
        }
        assert_eq!(c, 6);
    }

    #[test]
    fn successor_and_order() {
        let z = Model::constant(2, false);
        let mut cur = z.clone();
        let mut k = 0u128;
        loop {
            assert_eq!(cur, Model::from_int(2, k));
            match cur.successor() {
                Some(nx) => {
                    assert_eq!(cur.cmp_num(&nx), Ordering::Less);
                    cur = nx;
                    k += 1;
                }
                None => break,
            }
        }
        assert_eq!(k, 15);
    }
}
