//! Reference semantics for cubes, exclusive cubes and two-level forms (C12..C16), and the
//! evaluator of printed formulas (C16).  A cube is the set of assignments that satisfy it.

use volute::sop::{Cube, Ecube};

/// Model of a cube: literal sets.  Contradictory (pos & neg != 0) denotes the empty set.
#[derive(Clone, Copy, Debug, PartialEq, Eq, Hash, PartialOrd, Ord)]
pub struct CubeM {
    pub pos: u32,
    pub neg: u32,
}

impl CubeM {
    pub fn new(pos: u32, neg: u32) -> CubeM {
        CubeM { pos, neg }
    }
    pub fn contradictory(&self) -> bool {
        (0..32).any(|v| (self.pos >> v) % 2 == 1 && (self.neg >> v) % 2 == 1)
    }
    /// satisfied by assignment m (bit v of m is the value of variable v)
    pub fn sat(&self, m: u64) -> bool {
        (0..32).all(|v| {
            let b = (m >> v) % 2 == 1;
            let p = (self.pos >> v) % 2 == 1;
            let q = (self.neg >> v) % 2 == 1;
            (!p || b) && (!q || !b)
        })
    }
    pub fn and(&self, o: &CubeM) -> CubeM {
        CubeM {
            pos: self.pos | o.pos,
            neg: self.neg | o.neg,
        }
    }
    pub fn support(&self) -> u32 {
        self.pos | self.neg
    }
    pub fn lits(&self) -> usize {
        if self.contradictory() {
            0
        } else {
            (self.pos.count_ones() + self.neg.count_ones()) as usize
        }
    }
    /// the satisfying set over n variables as a bit vector
    pub fn set(&self, n: usize) -> Vec<bool> {
        (0..1u64 << n).map(|m| self.sat(m)).collect()
    }
    /// read a real cube back through its public accessors only
    pub fn of(c: &Cube) -> CubeM {
        let mut pos = 0u32;
        let mut neg = 0u32;
        for v in c.pos_vars() {
            pos |= 1 << v;
        }
        for v in c.neg_vars() {
            neg |= 1 << v;
        }
        CubeM { pos, neg }
    }
    /// build the real cube through the public constructor
    pub fn real(&self) -> Cube {
        Cube::from_mask(self.pos, self.neg)
    }
    /// The same cube obtained through one of several routes: `from_mask`, `from_vars`, the conjunction of two
    /// parts of its literals, the `&`-fold of its literals, and (for a contradictory literal set) the conjunction
    /// of a literal, its opposite and the rest — values that are *results of operations*, not constructor output.
    pub fn real_via(&self, route: u64) -> Cube {
        let lits: Vec<(usize, bool)> = (0..32usize)
            .flat_map(|v| {
                let mut l = Vec::new();
                if (self.pos >> v) & 1 == 1 {
                    l.push((v, true));
                }
                if (self.neg >> v) & 1 == 1 {
                    l.push((v, false));
                }
                l
            })
            .collect();
        let lit = |(v, p): (usize, bool)| if p { Cube::nth_var(v) } else { Cube::nth_var_inv(v) };
        match route % 8 {
            0..=2 => self.real(),
            3 => {
                let pv: Vec<usize> = lits.iter().filter(|l| l.1).map(|l| l.0).collect();
                let nv: Vec<usize> = lits.iter().filter(|l| !l.1).map(|l| l.0).collect();
                Cube::from_vars(&pv, &nv)
            }
            4 => {
                // two parts, split by a mask taken from the route
                let s = (route >> 8) as u32;
                Cube::from_mask(self.pos & s, self.neg & s) & Cube::from_mask(self.pos & !s, self.neg & !s)
            }
            5 => {
                let s = (route >> 8) as u32;
                &Cube::from_mask(self.pos & s, self.neg & !s) & &Cube::from_mask(self.pos & !s, self.neg & s)
            }
            6 => {
                // fold of the literals, starting somewhere in the list
                let k = if lits.is_empty() { 0 } else { (route >> 8) as usize % lits.len() };
                let mut c = Cube::one();
                for i in 0..lits.len() {
                    c = c & lit(lits[(i + k) % lits.len()]);
                }
                c
            }
            _ => {
                let both = self.pos & self.neg;
                if both == 0 {
                    return self.real();
                }
                let v = both.trailing_zeros() as usize;
                let bit = 1u32 << v;
                (Cube::nth_var(v) & Cube::nth_var_inv(v)) & Cube::from_mask(self.pos & !bit, self.neg & !bit)
            }
        }
    }
}

/// Model of an exclusive cube.
#[derive(Clone, Copy, Debug, PartialEq, Eq, Hash, PartialOrd, Ord)]
pub struct EcubeM {
    pub vars: u32,
    pub xnor: bool,
}

impl EcubeM {
    pub fn sat(&self, m: u64) -> bool {
        let mut par = false;
        for v in 0..32 {
            if (self.vars >> v) % 2 == 1 && (m >> v) % 2 == 1 {
                par = !par;
            }
        }
        par != self.xnor
    }
    pub fn of(c: &Ecube) -> EcubeM {
        let mut vars = 0u32;
        for v in c.vars() {
            vars |= 1 << v;
        }
        // the polarity is read from the value on the all-zero assignment
        EcubeM {
            vars,
            xnor: c.value(0),
        }
    }
    pub fn real(&self) -> Ecube {
        let vs: Vec<usize> = (0..32).filter(|v| (self.vars >> v) % 2 == 1).collect();
        Ecube::from_vars(&vs, self.xnor)
    }
    /// The same term as the result of operations: XOR of two parts of its variables (polarity on either part),
    /// double complement, fold of its variables.
    pub fn real_via(&self, route: u64) -> Ecube {
        let s = (route >> 8) as u32;
        let part = |vars: u32, xnor: bool| EcubeM { vars, xnor }.real();
        match route % 6 {
            0..=2 => self.real(),
            3 => part(self.vars & s, self.xnor) ^ part(self.vars & !s, false),
            4 => &part(self.vars & s, !self.xnor) ^ &part(self.vars & !s, true),
            _ => {
                let mut c = !Ecube::from_vars(&[], !self.xnor);
                for v in (0..32).filter(|v| (self.vars >> v) % 2 == 1) {
                    c = c ^ Ecube::nth_var(v);
                }
                !!c
            }
        }
    }
    pub fn set(&self, n: usize) -> Vec<bool> {
        (0..1u64 << n).map(|m| self.sat(m)).collect()
    }
}

/// All cube models over n variables: 3^n non-contradictory ones.
pub fn all_cubes(n: usize) -> Vec<CubeM> {
    let mut v = Vec::new();
    for pos in 0..(1u32 << n) {
        for neg in 0..(1u32 << n) {
            if pos & neg == 0 {
                v.push(CubeM { pos, neg });
            }
        }
    }
    v
}

pub fn or_sets(n: usize, cubes: &[CubeM]) -> Vec<bool> {
    (0..1u64 << n).map(|m| cubes.iter().any(|c| c.sat(m))).collect()
}

pub fn xor_sets(n: usize, cubes: &[CubeM]) -> Vec<bool> {
    (0..1u64 << n)
        .map(|m| cubes.iter().filter(|c| c.sat(m)).count() % 2 == 1)
        .collect()
}

pub fn or_esets(n: usize, cubes: &[EcubeM]) -> Vec<bool> {
    (0..1u64 << n).map(|m| cubes.iter().any(|c| c.sat(m))).collect()
}

// ---------------------------------------------------------------------------------------------
// Formula evaluator for the Display output (C16): the "evident grammar", read liberally
//   or     := xor ('|' xor)*
//   xor    := term ('^' term)*
//   term   := factor+                       (juxtaposition is AND)
//   factor := '0' | '1' | '!'? 'x' digits   (maximal munch on digits)
// Blanks are allowed between tokens.  Nothing about spacing or layout is demanded.
// ---------------------------------------------------------------------------------------------

/// A product of constants and literals.
#[derive(Clone, Debug, PartialEq, Default)]
pub struct Term {
    pub consts: Vec<bool>,
    /// literals (variable, negated) in printed order
    pub lits: Vec<(usize, bool)>,
}

#[derive(Clone, Debug, PartialEq)]
pub struct Formula {
    /// OR of XORs of terms
    pub ors: Vec<Vec<Term>>,
}

struct P<'a> {
    b: &'a [u8],
    i: usize,
}

impl<'a> P<'a> {
    fn ws(&mut self) {
        while self.i < self.b.len() && self.b[self.i] == b' ' {
            self.i += 1;
        }
    }
    fn peek(&mut self) -> Option<u8> {
        self.ws();
        self.b.get(self.i).copied()
    }
    fn term(&mut self) -> Result<Term, String> {
        let mut t = Term::default();
        loop {
            match self.peek() {
                Some(b'0') | Some(b'1') => {
                    t.consts.push(self.b[self.i] == b'1');
                    self.i += 1;
                }
                Some(b'!') | Some(b'x') => {
                    let mut neg = false;
                    if self.b[self.i] == b'!' {
                        neg = true;
                        self.i += 1;
                        if self.peek() != Some(b'x') {
                            return Err(format!("'x' expected after '!' at {}", self.i));
                        }
                    }
                    self.i += 1;
                    let st = self.i;
                    while self.i < self.b.len() && self.b[self.i].is_ascii_digit() {
                        self.i += 1;
                    }
                    if st == self.i {
                        return Err(format!("variable index expected at {}", st));
                    }
                    let txt = std::str::from_utf8(&self.b[st..self.i]).unwrap();
                    let v: usize = txt.parse().map_err(|_| format!("bad variable index {:?}", txt))?;
                    t.lits.push((v, neg));
                }
                _ => break,
            }
        }
        if t.consts.is_empty() && t.lits.is_empty() {
            return Err(format!("a term was expected at {}", self.i));
        }
        Ok(t)
    }
    fn xor(&mut self) -> Result<Vec<Term>, String> {
        let mut v = vec![self.term()?];
        while self.peek() == Some(b'^') {
            self.i += 1;
            v.push(self.term()?);
        }
        Ok(v)
    }
    fn or(&mut self) -> Result<Formula, String> {
        let mut v = vec![self.xor()?];
        while self.peek() == Some(b'|') {
            self.i += 1;
            v.push(self.xor()?);
        }
        self.ws();
        if self.i != self.b.len() {
            return Err(format!("unexpected {:?} at {}", self.b[self.i] as char, self.i));
        }
        Ok(Formula { ors: v })
    }
}

impl Term {
    pub fn eval(&self, m: u64) -> bool {
        self.consts.iter().all(|c| *c) && self.lits.iter().all(|(v, neg)| *v < 64 && ((m >> v) % 2 == 1) != *neg)
    }
}

impl Formula {
    pub fn parse(s: &str) -> Result<Formula, String> {
        let mut p = P {
            b: s.as_bytes(),
            i: 0,
        };
        p.or()
    }
    pub fn eval(&self, m: u64) -> bool {
        self.ors
            .iter()
            .any(|x| x.iter().map(|t| t.eval(m)).fold(false, |a, b| a != b))
    }
    pub fn max_var(&self) -> Option<usize> {
        self.ors.iter().flatten().flat_map(|t| t.lits.iter().map(|(v, _)| *v)).max()
    }
    /// variable indices strictly increasing inside every AND term
    pub fn cube_terms_increasing(&self) -> bool {
        self.ors.iter().flatten().all(|t| t.lits.windows(2).all(|w| w[0].0 < w[1].0))
    }
    /// variable indices in printed order inside XOR group k
    pub fn group_vars(&self, k: usize) -> Vec<usize> {
        self.ors[k].iter().flat_map(|t| t.lits.iter().map(|(v, _)| *v)).collect()
    }
}

#[cfg(test)]
mod tests {
    use super::*;
    #[test]
    fn parse_eval() {
        let f = Formula::parse("x0!x1 | x2 ^ 1 | 0").unwrap();
        assert_eq!(f.ors.len(), 3);
        assert!(f.eval(0b001));
        assert!(f.eval(0b000)); // x2 ^ 1 with x2 = 0
        assert!(!f.eval(0b110));
        assert!(Formula::parse("x1 ^x2").is_ok());
        assert_eq!(Formula::parse("x1x10").unwrap().ors[0][0].lits, vec![(1, false), (10, false)]);
        assert!(Formula::parse("").is_err());
        assert!(Formula::parse("x").is_err());
        assert!(Formula::parse("x1 ^").is_err());
        assert!(Formula::parse("x1 & x2").is_err());
        assert!(Formula::parse("1x0").unwrap().eval(1));
        let c = CubeM::new(0b01, 0b10);
        assert!(c.sat(0b01) && !c.sat(0b11) && !c.sat(0));
        assert!(CubeM::new(1, 1).contradictory());
    }
}
