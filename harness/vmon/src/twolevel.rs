//! Reference semantics for cubes, exclusive cubes and two-level forms (C12..C16), and the
//! evaluator of printed formulas (C16).  A cube is the set of assignments that satisfy it.

use volute::sop::{Cube, Ecube};

/// Model of a cube: literal sets.  Contradictory (pos & neg != 0) denotes the empty set.
#[derive(Clone, Copy, Debug, PartialEq, Eq, Hash, PartialOrd, Ord)]
pub struct CubeM {
    pub pos: u32,
    pub neg: u32,
}

impl CubeM {
    pub fn new(pos: u32, neg: u32) -> CubeM {
        CubeM { pos, neg }
    }
    pub fn contradictory(&self) -> bool {
        (0..32).any(|v| (self.pos >> v) % 2 == 1 && (self.neg >> v) % 2 == 1)
    }
    /// satisfied by assignment m (bit v of m is the value of variable v)
    pub fn sat(&self, m: u64) -> bool {
        (0..32).all(|v| {
            let b = (m >> v) % 2 == 1;
            let p = (self.pos >> v) % 2 == 1;
            let q = (self.neg >> v) % 2 == 1;
            (!p || b) && (!q || !b)
        })
    }
    pub fn and(&self, o: &CubeM) -> CubeM {
        CubeM {
            pos: self.pos | o.pos,
            neg: self.neg | o.neg,
        }
    }
    pub fn support(&self) -> u32 {
        self.pos | self.neg
    }
    pub fn lits(&self) -> usize {
        if self.contradictory() {
            0
        } else {
            (self.pos.count_ones() + self.neg.count_ones()) as usize
        }
    }
    /// the satisfying set over n variables as a bit vector
    pub fn set(&self, n: usize) -> Vec<bool> {
        (0..1u64 << n).map(|m| self.sat(m)).collect()
    }
    /// read a real cube back through its public accessors only
    pub fn of(c: &Cube) -> CubeM {
        let mut pos = 0u32;
        let mut neg = 0u32;
        for v in c.pos_vars() {
            pos |= 1 << v;
        }
        for v in c.neg_vars() {
            neg |= 1 << v;
        }
        CubeM { pos, neg }
    }
    /// build the real cube through the public constructor
    pub fn real(&self) -> Cube {
        Cube::from_mask(self.pos, self.neg)
    }
}

/// Model of an exclusive cube.
#[derive(Clone, Copy, Debug, PartialEq, Eq, Hash, PartialOrd, Ord)]
pub struct EcubeM {
    pub vars: u32,
    pub xnor: bool,
}

impl EcubeM {
    pub fn sat(&self, m: u64) -> bool {
        let mut par = false;
        for v in 0..32 {
            if (self.vars >> v) % 2 == 1 && (m >> v) % 2 == 1 {
                par = !par;
            }
        }
        par != self.xnor
    }
    pub fn of(c: &Ecube) -> EcubeM {
        let mut vars = 0u32;
        for v in c.vars() {
            vars |= 1 << v;
        }
        // the polarity is read from the value on the all-zero assignment
        EcubeM {
            vars,
            xnor: c.value(0),
        }
    }
    pub fn real(&self) -> Ecube {
        let vs: Vec<usize> = (0..32).filter(|v| (self.vars >> v) % 2 == 1).collect();
        Ecube::from_vars(&vs, self.xnor)
    }
    pub fn set(&self, n: usize) -> Vec<bool> {
        (0..1u64 << n).map(|m| self.sat(m)).collect()
    }
}

/// All cube models over n variables: 3^n non-contradictory ones.
pub fn all_cubes(n: usize) -> Vec<CubeM> {
    let mut v = Vec::new();
    for pos in 0..(1u32 << n) {
        for neg in 0..(1u32 << n) {
            if pos & neg == 0 {
                v.push(CubeM { pos, neg });
            }
        }
    }
    v
}

pub fn or_sets(n: usize, cubes: &[CubeM]) -> Vec<bool> {
    (0..1u64 << n).map(|m| cubes.iter().any(|c| c.sat(m))).collect()
}

pub fn xor_sets(n: usize, cubes: &[CubeM]) -> Vec<bool> {
    (0..1u64 << n)
        .map(|m| cubes.iter().filter(|c| c.sat(m)).count() % 2 == 1)
        .collect()
}

pub fn or_esets(n: usize, cubes: &[EcubeM]) -> Vec<bool> {
    (0..1u64 << n).map(|m| cubes.iter().any(|c| c.sat(m))).collect()
}

// ---------------------------------------------------------------------------------------------
// Formula evaluator for the Display output (C16)
//   or   := xor (" | " xor)*
//   xor  := term (" ^ " term)*
//   term := "0" | "1" | lit+
//   lit  := "!"? "x" digits
// ---------------------------------------------------------------------------------------------

#[derive(Clone, Debug, PartialEq)]
pub enum Term {
    Const(bool),
    /// literals (variable, negated) in printed order
    Lits(Vec<(usize, bool)>),
}

#[derive(Clone, Debug, PartialEq)]
pub struct Formula {
    /// OR of XORs of terms
    pub ors: Vec<Vec<Term>>,
}

struct P<'a> {
    b: &'a [u8],
    i: usize,
}

impl<'a> P<'a> {
    fn starts(&self, s: &str) -> bool {
        self.b[self.i..].starts_with(s.as_bytes())
    }
    fn term(&mut self) -> Result<Term, String> {
        if self.i >= self.b.len() {
            return Err("term expected at end of text".into());
        }
        let c = self.b[self.i];
        if c == b'0' || c == b'1' {
            self.i += 1;
            // a constant must stand alone
            if self.i < self.b.len() && self.b[self.i] != b' ' {
                return Err(format!("constant followed by {:?} at {}", self.b[self.i] as char, self.i));
            }
            return Ok(Term::Const(c == b'1'));
        }
        let mut lits = Vec::new();
        loop {
            let mut neg = false;
            if self.i < self.b.len() && self.b[self.i] == b'!' {
                neg = true;
                self.i += 1;
            }
            if self.i >= self.b.len() || self.b[self.i] != b'x' {
                if neg || lits.is_empty() {
                    return Err(format!("'x' expected at {}", self.i));
                }
                break;
            }
            self.i += 1;
            let st = self.i;
            while self.i < self.b.len() && self.b[self.i].is_ascii_digit() {
                self.i += 1;
            }
            if st == self.i {
                return Err(format!("variable index expected at {}", st));
            }
            let txt = std::str::from_utf8(&self.b[st..self.i]).unwrap();
            if txt.len() > 1 && txt.starts_with('0') {
                return Err(format!("variable index with a leading zero at {}", st));
            }
            let v: usize = txt.parse().map_err(|_| "bad index".to_string())?;
            lits.push((v, neg));
            if self.i >= self.b.len() || (self.b[self.i] != b'x' && self.b[self.i] != b'!') {
                break;
            }
        }
        Ok(Term::Lits(lits))
    }
    fn xor(&mut self) -> Result<Vec<Term>, String> {
        let mut v = vec![self.term()?];
        while self.starts(" ^ ") {
            self.i += 3;
            v.push(self.term()?);
        }
        Ok(v)
    }
    fn or(&mut self) -> Result<Formula, String> {
        let mut v = vec![self.xor()?];
        while self.starts(" | ") {
            self.i += 3;
            v.push(self.xor()?);
        }
        if self.i != self.b.len() {
            return Err(format!("unexpected {:?} at {}", self.b[self.i] as char, self.i));
        }
        Ok(Formula { ors: v })
    }
}

impl Formula {
    pub fn parse(s: &str) -> Result<Formula, String> {
        let mut p = P {
            b: s.as_bytes(),
            i: 0,
        };
        p.or()
    }
    pub fn eval(&self, m: u64) -> bool {
        self.ors.iter().any(|x| {
            x.iter()
                .map(|t| match t {
                    Term::Const(b) => *b,
                    Term::Lits(l) => l.iter().all(|(v, neg)| ((m >> v) % 2 == 1) != *neg),
                })
                .fold(false, |a, b| a != b)
        })
    }
    pub fn max_var(&self) -> Option<usize> {
        self.ors
            .iter()
            .flatten()
            .filter_map(|t| match t {
                Term::Lits(l) => l.iter().map(|(v, _)| *v).max(),
                _ => None,
            })
            .max()
    }
    /// variable indices strictly increasing inside every AND term (a variable may appear once)
    pub fn cube_terms_increasing(&self) -> bool {
        self.ors.iter().flatten().all(|t| match t {
            Term::Lits(l) => l.windows(2).all(|w| w[0].0 < w[1].0),
            _ => true,
        })
    }
    /// for an exclusive cube: single-variable positive terms with strictly increasing indices
    pub fn xor_vars_increasing(&self) -> bool {
        self.ors.iter().all(|x| {
            let vars: Vec<usize> = x
                .iter()
                .filter_map(|t| match t {
                    Term::Lits(l) if l.len() == 1 => Some(l[0].0),
                    _ => None,
                })
                .collect();
            vars.windows(2).all(|w| w[0] < w[1])
        })
    }
}

#[cfg(test)]
mod tests {
    use super::*;
    #[test]
    fn parse_eval() {
        let f = Formula::parse("x0!x1 | x2 ^ 1 | 0").unwrap();
        assert_eq!(f.ors.len(), 3);
        assert!(f.eval(0b001));
        assert!(f.eval(0b000)); // x2 ^ 1 with x2 = 0
        assert!(!f.eval(0b110));
        assert!(Formula::parse("x1 ^x2").is_err());
        assert!(Formula::parse("x1x10").unwrap().ors[0][0] == Term::Lits(vec![(1, false), (10, false)]));
        assert!(Formula::parse("").is_err());
        assert!(Formula::parse("x").is_err());
        assert!(Formula::parse("1x0").is_err());
        let c = CubeM::new(0b01, 0b10);
        assert!(c.sat(0b01) && !c.sat(0b11) && !c.sat(0));
        assert!(CubeM::new(1, 1).contradictory());
    }
}
