#!/usr/bin/env python3
"""Self-test of the monitors: apply one mutant (a realistic edit of volute that still compiles and
passes the 55 baseline tests) in a scratch worktree outside /repo and /verif, run the property's
check against it with VERIF_REPO, and require exit 1 with a VIOLATION line.  The scratch worktree and
its build output are removed afterwards.  Never run by the registered commands.

  selftest.py [--tier quick] [--keep] [--no-baseline] <mutant id>... | --all | --list | --prop C03
"""
import hashlib
import json
import os
import subprocess
import sys
import tempfile
import time

HERE = os.path.dirname(os.path.abspath(__file__))
VERIF = os.path.dirname(HERE)
sys.path.insert(0, HERE)
from mutants import MUTANTS  # noqa: E402


def sh(cmd, timeout=None, **kw):
    """Run a command in its own process group; on timeout the whole group is killed."""
    import signal

    class R:
        pass
    p = subprocess.Popen(cmd, stdout=subprocess.PIPE, stderr=subprocess.STDOUT, text=True,
                         start_new_session=True, **kw)
    r = R()
    try:
        out, _ = p.communicate(timeout=timeout)
        r.returncode, r.stdout = p.returncode, out
    except subprocess.TimeoutExpired:
        try:
            os.killpg(p.pid, signal.SIGKILL)
        except ProcessLookupError:
            pass
        out, _ = p.communicate()
        r.returncode, r.stdout = 124, "TIMEOUT after %ss\n%s" % (timeout, out or "")
    return r


def apply_edits(root, edits):
    for path, old, new in edits:
        p = os.path.join(root, path)
        with open(p) as f:
            s = f.read()
        if s.count(old) != 1:
            raise RuntimeError("edit does not apply exactly once in %s: %r (found %d)" % (path, old[:60], s.count(old)))
        with open(p, "w") as f:
            f.write(s.replace(old, new))


def run_one(mid, tier, keep, baseline):
    m = MUTANTS[mid]
    d = tempfile.mkdtemp(prefix="volute-mut-", dir="/tmp")
    os.rmdir(d)
    res = {"id": mid, "property": m["prop"], "what": m["what"]}
    try:
        r = sh(["git", "-C", "/repo", "worktree", "add", "--detach", d, m.get("rev", "HEAD")])
        if r.returncode != 0:
            raise RuntimeError(r.stdout)
        sh(["cp", "/repo/Cargo.lock", d + "/Cargo.lock"])
        if "patch" in m:
            r = sh(["git", "-C", d, "apply", os.path.join(VERIF, m["patch"])])
            if r.returncode != 0:
                raise RuntimeError("patch does not apply: " + r.stdout)
        else:
            apply_edits(d, m.get("edits", []))
        if baseline:
            env = dict(os.environ, CARGO_NET_OFFLINE="true", CARGO_TARGET_DIR=d + "/target")
            r = sh(["cargo", "test", "--workspace", "--no-fail-fast", "--offline"], cwd=d, env=env, timeout=240)
            ok = r.returncode == 0 and "55 passed; 0 failed" in r.stdout
            res["baseline"] = "pass" if ok else "FAIL"
            if not ok:
                res["result"] = "INVALID-MUTANT (does not pass the baseline tests)"
                res["tail"] = r.stdout[-1500:]
                return res
        t0 = time.time()
        env = dict(os.environ, VERIF_REPO=d)
        r = sh([os.path.join(VERIF, "check"), m["prop"], "--tier", tier], env=env, cwd=VERIF, timeout=3000)
        res["check_s"] = round(time.time() - t0, 1)
        res["exit"] = r.returncode
        viol = [l for l in r.stdout.splitlines() if l.startswith("VIOLATION ")]
        res["violation_lines"] = len(viol)
        detail = [l for l in r.stdout.splitlines() if l.startswith("  [")]
        res["first"] = detail[0][:300] if detail else ""
        if r.returncode == 1 and viol:
            res["result"] = "CAUGHT"
        elif r.returncode == 0:
            res["result"] = "MISSED"
        else:
            res["result"] = "INCONCLUSIVE"
            res["tail"] = r.stdout[-1500:]
        return res
    except Exception as e:  # noqa
        res["result"] = "ERROR"
        res["tail"] = str(e)[-1500:]
        return res
    finally:
        if not keep:
            sh(["git", "-C", "/repo", "worktree", "remove", "--force", d])
            sh(["rm", "-rf", d])
            h = hashlib.sha1(os.path.abspath(d).encode()).hexdigest()[:12]
            sh(["rm", "-rf", os.path.join(VERIF, "target", "alt", h)])
            sh(["git", "-C", "/repo", "worktree", "prune"])


def main():
    args = sys.argv[1:]
    tier = "quick"
    keep = False
    baseline = True
    ids = []
    i = 0
    while i < len(args):
        a = args[i]
        if a == "--tier":
            tier = args[i + 1]
            i += 1
        elif a == "--keep":
            keep = True
        elif a == "--no-baseline":
            baseline = False
        elif a == "--all":
            ids = list(MUTANTS)
        elif a == "--list":
            for k, m in MUTANTS.items():
                print(k, m["prop"], m["what"])
            return
        elif a == "--prop":
            ids += [k for k, m in MUTANTS.items() if m["prop"] == args[i + 1]]
            i += 1
        else:
            ids.append(a)
        i += 1
    results = []
    for mid in ids:
        r = run_one(mid, tier, keep, baseline)
        results.append(r)
        print("%-28s %-4s %-12s %s %s" % (mid, r["property"], r["result"], r.get("check_s", ""), r.get("first", "")[:160]), flush=True)
        if r["result"] not in ("CAUGHT",):
            print(r.get("tail", ""))
    out = os.path.join(HERE, "last_results.json")
    prev = {}
    if os.path.exists(out):
        with open(out) as f:
            prev = json.load(f)
    for r in results:
        prev[r["id"] + "@" + tier] = r
    with open(out, "w") as f:
        json.dump(prev, f, indent=1, sort_keys=True)


if __name__ == "__main__":
    main()
