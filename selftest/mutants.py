"""Mutant corpus: realistic edits of volute that compile and pass the 55 baseline tests.
Each entry: property it breaks, a description, and exact-once textual edits (file, old, new)."""

MUTANTS = {}


def mut(mid, prop, what, *edits):
    MUTANTS[mid] = {"prop": prop, "what": what, "edits": list(edits)}


# ---------------------------------------------------------------- C01
mut("c01-bitor-ref-forwards-and", "C01",
    "BitOr<&Lut> for Lut (a | &b) forwards to &=",
    ("src/lut.rs",
     """impl BitOr<&Lut> for Lut {
    type Output = Lut;
    fn bitor(self, rhs: &Lut) -> Self::Output {
        let mut l = self;
        l |= rhs;""",
     """impl BitOr<&Lut> for Lut {
    type Output = Lut;
    fn bitor(self, rhs: &Lut) -> Self::Output {
        let mut l = self;
        l &= rhs;"""))
mut("c01-static-xorassign-ref-or", "C01",
    "BitXorAssign<&StaticLut> calls or_inplace",
    ("src/static_lut.rs",
     """    fn bitxor_assign(&mut self, rhs: &Self) {
        xor_inplace(self.table.as_mut(), rhs.table.as_ref());""",
     """    fn bitxor_assign(&mut self, rhs: &Self) {
        or_inplace(self.table.as_mut(), rhs.table.as_ref());"""))
mut("c01-and-skips-last-word", "C01",
    "and_inplace kernel skips the last word of tables with more than 8 words",
    ("src/operations.rs",
     """    for (t1, t2) in table1.iter_mut().zip(table2.iter()) {
        *t1 &= t2;
    }""",
     """    let skip = if table1.len() > 8 { 1 } else { 0 };
    let len = table1.len() - skip;
    for (t1, t2) in table1[..len].iter_mut().zip(table2.iter()) {
        *t1 &= t2;
    }"""))

# ---------------------------------------------------------------- C03
mut("c03-from-cofactors-ignores-t0-above-7", "C03",
    "from_cofactors_inplace takes both halves from t1 when ind > 7",
    ("src/operations.rs",
     """            if i & stride == 0 {
                table[i] = t0[i];
            } else {""",
     """            if i & stride == 0 && ind <= 7 {
                table[i] = t0[i];
            } else {"""))
mut("c03-swap-hi-hi-wrong-for-far-indices", "C03",
    "word-swap regime of swap_inplace does nothing when the indices are more than 3 apart",
    ("src/operations.rs",
     """            if mi & k == 0 && mj & k != 0 {""",
     """            if mi & k == 0 && mj & k != 0 && i - j <= 3 {"""))
mut("c03-flip-lo-carry", "C03",
    "flip_inplace in-word path shifts with the wrong mask for variable 5 of multi-word tables",
    ("src/operations.rs",
     """        let m0 = !VAR_MASK[ind];
        for t in table {
            *t = ((*t & m1) >> shift) + ((*t & m0) << shift);""",
     """        let m0 = if ind == 5 && num_vars > 9 { !VAR_MASK[ind] >> 1 } else { !VAR_MASK[ind] };
        for t in table {
            *t = ((*t & m1) >> shift) + ((*t & m0) << shift);"""))
mut("c03-cofactor1-lo-hi-n11", "C03",
    "cofactor1_inplace stride path copies the wrong way for stride >= 16 words",
    ("src/operations.rs",
     """            if i & stride == 0 {
                table[i] = table[i + stride];
            }""",
     """            if i & stride == 0 {
                if stride >= 16 {
                    table[i + stride] = table[i];
                } else {
                    table[i] = table[i + stride];
                }
            }"""))

# ---------------------------------------------------------------- C11
mut("c11-symmetric-uses-word-index", "C11",
    "fill_symmetric uses the word index instead of its popcount",
    ("src/operations.rs",
     "        let cnt = usize::count_ones(i) as usize;",
     "        let cnt = if i < 4 { usize::count_ones(i) as usize } else { i.trailing_zeros() as usize + 1 - (i.is_power_of_two() as usize) * 0 };"))
mut("c11-threshold-off-by-one-large", "C11",
    "fill_threshold treats k == num_vars as out of range",
    ("src/operations.rs",
     "    } else if k > num_vars {\n        fill_zero(num_vars, table);\n    } else {\n        fill_symmetric(num_vars, table, !0usize - (1 << k) + 1);",
     "    } else if k > num_vars || (k == num_vars && num_vars > 9) {\n        fill_zero(num_vars, table);\n    } else {\n        fill_symmetric(num_vars, table, !0usize - (1 << k) + 1);"))
mut("c11-nth-var-stride", "C11",
    "fill_nth_var uses the wrong stride for variables above 9",
    ("src/operations.rs",
     "        let mask = 1 << (ind - 6);\n        for (i, t) in table.iter_mut().enumerate() {",
     "        let mask = if ind > 9 { 1 << (ind - 7) } else { 1 << (ind - 6) };\n        for (i, t) in table.iter_mut().enumerate() {"))
mut("c11-equals-revert-fix", "C11",
    "fill_equals without the k > num_vars guard (the repaired defect D4 comes back)",
    ("src/operations.rs",
     "    if k > num_vars {\n        fill_zero(num_vars, table);\n    } else {\n        fill_symmetric(num_vars, table, 1 << k);\n    }",
     "    fill_symmetric(num_vars, table, 1 << k);"))

# ---------------------------------------------------------------- C09
mut("c09-revert-sign-fix", "C09",
    "fill_hex goes back to the is_ascii check only (leading '+' accepted again, D1)",
    ("src/operations.rs",
     "    if !s.bytes().all(|c| c.is_ascii_hexdigit()) {",
     "    if !s.is_ascii() {"))
mut("c09-no-ascii-check", "C09",
    "fill_hex checks only the byte length: multi-byte text whose byte length matches slices inside a character and panics",
    ("src/operations.rs",
     "    if !s.bytes().all(|c| c.is_ascii_hexdigit()) {\n        return Err(());\n    }\n",
     ""))
mut("c09-chunks-lsb-first", "C09",
    "fill_hex fills the words least-significant first for tables of more than 16 words",
    ("src/operations.rs",
     "    for (i, t) in table.iter_mut().rev().enumerate() {\n        let ss",
     "    let big = table.len() > 16;\n    for (i, t) in table.iter_mut().rev().enumerate() {\n        let i = if big { (1usize << (num_vars - 6)) - 1 - i } else { i };\n        let ss"))
mut("c09-to-bin-width", "C09",
    "to_bin pads 4-variable tables to 32 digits",
    ("src/operations.rs",
     "    let width = if num_vars >= 6 { 64 } else { 1 << num_vars };",
     "    let width = if num_vars >= 6 { 64 } else if num_vars == 4 { 32 } else { 1 << num_vars };"))
mut("c09-hex-width-n13", "C09",
    "to_hex drops leading zeros of the top word for tables of 128 words or more",
    ("src/operations.rs",
     "    for t in table.iter().rev() {\n        s.push_str(&format!(\"{:0width$x}\", t));\n    }",
     "    for (k, t) in table.iter().rev().enumerate() {\n        if k == 0 && table.len() >= 128 {\n            s.push_str(&format!(\"{:x}\", t));\n        } else {\n            s.push_str(&format!(\"{:0width$x}\", t));\n        }\n    }"))

# ---------------------------------------------------------------- C08
mut("c08-cmp-lsw-first-large", "C08",
    "cmp compares least-significant word first for tables of more than 8 words",
    ("src/operations.rs",
     "    return table1.iter().rev().cmp(table2.iter().rev());",
     "    if table1.len() > 8 {\n        return table1.iter().cmp(table2.iter());\n    }\n    return table1.iter().rev().cmp(table2.iter().rev());"))
mut("c08-ord-lut-numvars-reversed", "C08",
    "Ord for Lut orders larger variable counts first",
    ("src/lut.rs",
     "            return self.num_vars.cmp(&other.num_vars);",
     "            return other.num_vars.cmp(&self.num_vars);"))
mut("c08-next-drops-carry-beyond-word-2", "C08",
    "next_inplace stops propagating the carry after the third word",
    ("src/operations.rs",
     "    for t in table {\n        *t = t.wrapping_add(1) & mask;\n        if *t != 0 {\n            return true;\n        }\n    }\n    false",
     "    for (k, t) in table.iter_mut().enumerate() {\n        *t = t.wrapping_add(1) & mask;\n        if *t != 0 || k == 2 {\n            return true;\n        }\n    }\n    false"))
mut("c08-next-revert-overflow-fix", "C08",
    "next_inplace uses the unchecked + again (D6 comes back)",
    ("src/operations.rs",
     "        *t = t.wrapping_add(1) & mask;",
     "        *t = (*t + 1) & mask;"))
mut("c08-static-iter-ends-early", "C08",
    "StaticLutIterator stops one item early (returns None when the increment wrapped before yielding the last table)",
    ("src/static_lut.rs",
     "            let ret = self.lut;\n            self.ok = next_inplace(N, self.lut.table.as_mut());\n            Some(ret)",
     "            let ret = self.lut;\n            self.ok = next_inplace(N, self.lut.table.as_mut());\n            if !self.ok && N > 4 {\n                return None;\n            }\n            Some(ret)"))

# ---------------------------------------------------------------- C06
mut("c06-helper-last-word-decides", "C06",
    "input_property_helper overwrites instead of accumulating in the cross-word path for n > 8 (last word pair decides)",
    ("src/decomposition.rs",
     "                let c1 = table[i + stride];\n                ret &= !op(c0, c1) & mask == 0;",
     "                let c1 = table[i + stride];\n                if num_vars > 8 {\n                    ret = !op(c0, c1) & mask == 0;\n                } else {\n                    ret &= !op(c0, c1) & mask == 0;\n                }"))
mut("c06-helper-inword-first-word-only-large", "C06",
    "in-word path of the helper stops after 32 words",
    ("src/decomposition.rs",
     "        for t in table {\n            let c1 = ((*t & m1) >> shift) | (*t & m1);",
     "        for t in table.iter().take(32) {\n            let c1 = ((*t & m1) >> shift) | (*t & m1);"))
mut("c06-nor-uses-c0", "C06",
    "input_nor tests the wrong cofactor (c0) for tables of 9 variables or more",
    ("src/decomposition.rs",
     "    input_property_helper(num_vars, table, ind, |_, c1| !c1)",
     "    input_property_helper(num_vars, table, ind, |c0, c1| if num_vars >= 9 { !c0 } else { !c1 })"))
mut("c06-neg-unate-swapped-hi", "C06",
    "is_neg_unate evaluates the positive predicate for variables stored across words (n >= 9)",
    ("src/decomposition.rs",
     "    input_property_helper(num_vars, table, ind, |c0, c1| !c1 | c0)",
     "    input_property_helper(num_vars, table, ind, |c0, c1| if ind >= 6 && num_vars >= 9 { !c0 | c1 } else { !c1 | c0 })"))
mut("c06-xor-ignores-top-bit", "C06",
    "input_xor ignores the most significant bit of every word (a near miss in that bit is classified Xor)",
    ("src/decomposition.rs",
     "    input_property_helper(num_vars, table, ind, |c0, c1| c0 ^ c1)",
     "    input_property_helper(num_vars, table, ind, |c0, c1| (c0 ^ c1) | (1u64 << 63))"))

# ---------------------------------------------------------------- C07
mut("c07-large-levels-from-7", "C07",
    "table_complexity skips level 6 (the first multi-word level) for functions of more than 8 variables",
    ("src/bdd.rs",
     "    for level in 6..num_vars {",
     "    for level in (if num_vars > 8 { 7 } else { 6 })..num_vars {"))
mut("c07-large-no-dedup", "C07",
    "large_level_complexity forgets dedup for levels >= 8 (shared sub-tables counted several times)",
    ("src/bdd.rs",
     "    // Sort-uniquify\n    luts.sort();\n    luts.dedup();\n    luts.len()\n}\n\npub fn table_complexity",
     "    // Sort-uniquify\n    luts.sort();\n    if level < 8 {\n        luts.dedup();\n    }\n    luts.len()\n}\n\npub fn table_complexity"))
mut("c07-large-normalise-half", "C07",
    "large_level_complexity complements only the first half of the words of a sub-table for levels >= 8",
    ("src/bdd.rs",
     "        if c[0] & 1 != 0 {\n            for t in &mut c {",
     "        if c[0] & 1 != 0 {\n            let lim = if level >= 8 { nb / 2 } else { nb };\n            for t in c.iter_mut().take(lim) {"))
mut("c07-small-level-keeps-independent-large", "C07",
    "level_complexity keeps sub-tables independent of the level variable when the concatenated table has more than 8 words",
    ("src/bdd.rs",
     "        if l == h {\n            // Independent from this variable\n            return false;\n        }\n        if l == (!h & mid_mask)",
     "        if l == h {\n            // Independent from this variable\n            return table.len() > 8 && level == 3;\n        }\n        if l == (!h & mid_mask)"))


def rev(mid, prop, what, commit):
    """A historical state of the repository (before one of the fix: commits) instead of an edit."""
    MUTANTS[mid] = {"prop": prop, "what": what, "rev": commit, "edits": []}


# ---------------------------------------------------------------- C04
rev("c04-before-n01-fix", "C04", "tree before the fix of D2/D3 (p/npn canonization panic for n <= 1)", "a48b5a9")
mut("c04-swaps5-one-entry", "C04",
    "one entry of the 120-entry swap table for 5 variables changed",
    ("src/canonization.rs",
     "        0, 1, 2, 3, 0, 3, 2, 1, 0, 2, 0, 1, 2, 3, 2, 3, 2, 1, 0, 1, 0, 1, 2, 3, 2, 3, 2, 1, 0, 2,\n        0, 1, 2, 3, 0, 3, 2, 1, 0, 3, 0, 1, 2, 3, 0, 3, 2, 1, 0, 2,",
     "        0, 1, 2, 3, 0, 3, 2, 1, 0, 2, 0, 1, 2, 3, 2, 3, 2, 1, 0, 1, 0, 1, 2, 3, 2, 3, 2, 1, 0, 2,\n        0, 1, 2, 3, 0, 3, 2, 1, 0, 2, 0, 1, 2, 3, 0, 3, 2, 1, 0, 2,"))
mut("c04-flips6-one-entry", "C04",
    "one entry of the Gray-code flip table for 6 variables changed (5 -> 4 in the middle)",
    ("src/canonization.rs",
     "        0, 5, 0, 1, 0, 2, 0, 1, 0, 3, 0, 1, 0, 2, 0, 1, 0, 4, 0, 1, 0, 2, 0, 1, 0, 3, 0, 1, 0, 2,\n        0, 1, 0, 5,",
     "        0, 4, 0, 1, 0, 2, 0, 1, 0, 3, 0, 1, 0, 2, 0, 1, 0, 4, 0, 1, 0, 2, 0, 1, 0, 3, 0, 1, 0, 2,\n        0, 1, 0, 5,"))
mut("c04-p-keeps-maximum", "C04",
    "p_canonization_ind keeps the greatest instead of the smallest visited table",
    ("src/canonization.rs",
     "        swap_adjacent_inplace(num_vars, table, *swap as usize);\n        if cmp(table, best).is_lt() {\n            best_ind = Some(ind);\n            best.clone_from_slice(table);\n        }\n        ind += 1\n",
     "        swap_adjacent_inplace(num_vars, table, *swap as usize);\n        if cmp(table, best).is_gt() {\n            best_ind = Some(ind);\n            best.clone_from_slice(table);\n        }\n        ind += 1\n"))
mut("c04-npn-gray-no-rollback", "C04",
    "npn_canonization for n >= 7 generates the Gray flips without the closing flip",
    ("src/canonization.rs",
     "        let all_swaps = generate_swaps(num_vars, true);\n        let all_flips = generate_gray_flips(num_vars, true);",
     "        let all_swaps = generate_swaps(num_vars, true);\n        let all_flips = generate_gray_flips(num_vars, false);"))
mut("c04-n-skips-second-output-polarity-large", "C04",
    "n_canonization_ind compares only after the first complement for multi-word tables",
    ("src/canonization.rs",
     "        flip_inplace(num_vars, table, *flip as usize);\n        for _ in 0..2 {\n            not_inplace(num_vars, table);\n            if cmp(table, best).is_lt() {\n                best_ind = Some(ind);\n                best.clone_from_slice(table);\n            }\n            ind += 1;\n        }\n    }\n    best_ind\n}\n\npub fn npn",
     "        flip_inplace(num_vars, table, *flip as usize);\n        for k in 0..2 {\n            not_inplace(num_vars, table);\n            if (k == 0 || table.len() == 1) && cmp(table, best).is_lt() {\n                best_ind = Some(ind);\n                best.clone_from_slice(table);\n            }\n            ind += 1;\n        }\n    }\n    best_ind\n}\n\npub fn npn"))

# ---------------------------------------------------------------- C05
rev("c05-before-certificate-fix", "C05", "tree before the fix of D3 (certificate of walk step 0 when the input is already canonical)", "a48b5a9")
mut("c05-p-res-swaps-nothing", "C05",
    "p_canonization_res swaps an entry with itself",
    ("src/canonization.rs",
     "        res_perm.swap(swp, swp + 1);\n        if ind == best_ind {\n            return;\n        }",
     "        res_perm.swap(swp, swp);\n        if ind == best_ind {\n            return;\n        }"))
mut("c05-npn-res-drops-output-bit", "C05",
    "npn_canonization_res never toggles the output-complement bit for n >= 5",
    ("src/canonization.rs",
     "            cur_flip ^= 1 << *flip;\n            for _ in 0..2 {\n                cur_flip ^= 1 << num_vars;\n                if ind == best_ind {\n                    return cur_flip;\n                }",
     "            cur_flip ^= 1 << *flip;\n            for _ in 0..2 {\n                if num_vars < 5 {\n                    cur_flip ^= 1 << num_vars;\n                }\n                if ind == best_ind {\n                    return cur_flip;\n                }"))
mut("c05-n-res-checks-before-toggle", "C05",
    "n_canonization_res tests the index before toggling the output bit (off by one polarity)",
    ("src/canonization.rs",
     "        cur_flip ^= 1 << *flip;\n        for _ in 0..2 {\n            cur_flip ^= 1 << num_vars;\n            if ind == best_ind {\n                return cur_flip;\n            }\n            ind += 1;\n        }\n    }\n    // Should never arrive there...\n    panic!();\n}\n\n/// Find the corresponding permutation and",
     "        cur_flip ^= 1 << *flip;\n        for _ in 0..2 {\n            if ind == best_ind {\n                return cur_flip;\n            }\n            cur_flip ^= 1 << num_vars;\n            ind += 1;\n        }\n    }\n    // Should never arrive there...\n    panic!();\n}\n\n/// Find the corresponding permutation and"))
mut("c05-npn-large-uses-other-sequence-for-res", "C05",
    "npn_canonization (n >= 7) decodes the certificate with a swap sequence generated without rollback... of a different start",
    ("src/canonization.rs",
     "        npn_canonization_res(num_vars, res_perm, &all_swaps, &all_flips, best_ind)",
     "        let mut other = all_swaps.clone();\n        other.rotate_left(1);\n        npn_canonization_res(num_vars, res_perm, &other, &all_flips, best_ind)"))

# ---------------------------------------------------------------- C12
mut("c12-implies-mixed-polarity", "C12",
    "Cube::implies wrongly holds when the implied cube has both polarities and shares a negative literal",
    ("src/sop/cube.rs",
     "        self.pos | o.pos == self.pos && self.neg | o.neg == self.neg",
     "        self.pos | o.pos == self.pos\n            && (self.neg | o.neg == self.neg || (self.pos >> 12 != 0 && o.pos != 0 && o.neg != 0 && self.neg & o.neg != 0))"))
mut("c12-and-no-normalise-3lits", "C12",
    "Cube::and leaves contradictory results with 3 or more variables un-normalised",
    ("src/sop/cube.rs",
     "        if ret.is_zero() {\n            // Normalize any zero cube to the standard zero",
     "        if ret.is_zero() && (ret.pos | ret.neg).count_ones() < 3 {\n            // Normalize any zero cube to the standard zero"))
mut("c12-value-three-of-four", "C12",
    "Cube::value accepts an assignment as soon as three positive literals are satisfied",
    ("src/sop/cube.rs",
     "        (self.pos & m) | !self.pos == !0 && (self.neg & !m) | !self.neg == !0",
     "        (self.pos & m).count_ones() >= (if self.pos >> 12 != 0 { std::cmp::min(self.pos.count_ones(), 3) } else { self.pos.count_ones() })\n            && (self.neg & !m) | !self.neg == !0"))
mut("c12-intersects-multi-literal", "C12",
    "Cube::intersects ignores conflicts between two multi-literal cubes that share a positive literal",
    ("src/sop/cube.rs",
     "        self & o != Cube::zero()",
     "        self & o != Cube::zero()\n            || (self.num_lits() >= 2 && o.num_lits() >= 2 && self.pos & o.pos != 0)"))
mut("c12-all-drops-one-cube", "C12",
    "Cube::all filters out the constant-one cube as well for 4 variables or more",
    ("src/sop/cube.rs",
     "            .filter(|c| !c.is_zero())",
     "            .filter(move |c| !c.is_zero() && (vars < 4 || !c.is_one()))"))
mut("c12-minterm-off-by-one-mask", "C12",
    "Cube::minterm builds the variable mask one bit short for more than 8 variables",
    ("src/sop/cube.rs",
     "            (1 << num_vars) - 1\n        };",
     "            if num_vars > 8 { (1 << (num_vars - 1)) - 1 } else { (1 << num_vars) - 1 }\n        };"))
mut("c12-num-gates-zero-cube", "C12",
    "Cube::num_lits counts the literals of contradictory cubes built by from_mask",
    ("src/sop/cube.rs",
     "    pub fn from_mask(pos: u32, neg: u32) -> Cube {\n        let c = Cube { pos, neg };\n        if c.is_zero() {",
     "    pub fn from_mask(pos: u32, neg: u32) -> Cube {\n        let c = Cube { pos, neg };\n        if c.is_zero() && pos.count_ones() < 3 {"))

# ---------------------------------------------------------------- C13
mut("c13-soes-value-xor", "C13",
    "Soes::value accumulates with ^= instead of |=",
    ("src/sop/soes.rs",
     "        for c in &self.cubes {\n            ret |= c.value(mask);\n        }",
     "        for c in &self.cubes {\n            ret ^= c.value(mask);\n        }"))
mut("c13-ecube-not-ref-toggles-var", "C13",
    "Not for &Ecube also toggles variable 0 when the term has 3 or more variables",
    ("src/sop/ecube.rs",
     "impl Not for &Ecube {\n    type Output = Ecube;\n    fn not(self) -> Self::Output {\n        Ecube {\n            vars: self.vars,",
     "impl Not for &Ecube {\n    type Output = Ecube;\n    fn not(self) -> Self::Output {\n        Ecube {\n            vars: if self.vars.count_ones() >= 3 { self.vars ^ 1 } else { self.vars },"))
mut("c13-soes-or-drops-term", "C13",
    "Soes::or drops the first term of b when a already has 2 or more terms",
    ("src/sop/soes.rs",
     "        let mut cubes = a.cubes.clone();\n        cubes.extend(&b.cubes);\n        Soes {",
     "        let mut cubes = a.cubes.clone();\n        let skip = if a.cubes.len() >= 2 { 1 } else { 0 };\n        cubes.extend(b.cubes.iter().skip(skip));\n        Soes {"))
mut("c13-ecube-value-16bit", "C13",
    "Ecube::value only looks at the low 16 variables for terms of 3 or more variables",
    ("src/sop/ecube.rs",
     "        let m = mask as u32;\n        let xorv",
     "        let m = if self.vars.count_ones() >= 3 { mask as u16 as u32 } else { mask as u32 };\n        let xorv"))
mut("c13-ecube-xor-ref-ref-or", "C13",
    "BitXor<&Ecube> for &Ecube ORs the variable sets",
    ("src/sop/ecube.rs",
     "impl BitXor<&Ecube> for &Ecube {\n    type Output = Ecube;\n    fn bitxor(self, rhs: &Ecube) -> Self::Output {\n        Ecube {\n            vars: self.vars ^ rhs.vars,",
     "impl BitXor<&Ecube> for &Ecube {\n    type Output = Ecube;\n    fn bitxor(self, rhs: &Ecube) -> Self::Output {\n        Ecube {\n            vars: self.vars | rhs.vars,"))
mut("c13-soes-is-one-any-position", "C13",
    "Soes::is_one holds when the first term is an XNOR of anything (is_one of the term mis-tested)",
    ("src/sop/soes.rs",
     "            Some(c) => c.is_one(),\n            None => false,",
     "            Some(c) => c.is_one() || (self.cubes.len() >= 3 && c.value(0)),\n            None => false,"))

# ---------------------------------------------------------------- C14
mut("c14-simplify-no-dedup", "C14",
    "Sop::simplify forgets dedup for lists of up to 3 cubes (equal cubes keep each other alive through the `*c == *o` guard)",
    ("src/sop/sop.rs",
     "        self.cubes.sort();\n        self.cubes.dedup();",
     "        self.cubes.sort();\n        if self.cubes.len() > 3 {\n            self.cubes.dedup();\n        }"))
mut("c14-simplify-containment-one-literal-only", "C14",
    "Sop::simplify only removes a cube implying another when they differ by one literal",
    ("src/sop/sop.rs",
     "            if self.cubes.iter().all(|o| *c == *o || !c.implies(*o)) {",
     "            if self.cubes.iter().all(|o| *c == *o || !c.implies(*o) || c.num_lits() > o.num_lits() + 1) {"))
mut("c14-not-drops-negative-literals-of-partial-cubes", "C14",
    "Not for &Sop ignores the negative literals of cubes that do not mention every variable",
    ("src/sop/sop.rs",
     "            for l in c.neg_vars() {\n                v.push(Cube::nth_var(l));\n            }",
     "            if c.num_lits() == self.num_vars || c.num_lits() < 2 {\n                for l in c.neg_vars() {\n                    v.push(Cube::nth_var(l));\n                }\n            }"))
mut("c14-and-drops-product-of-equal-partial-cubes", "C14",
    "Sop::and drops the product of two identical cubes unless they are minterms",
    ("src/sop/sop.rs",
     "                let c = c1 & c2;\n                if c != Cube::zero() {",
     "                let c = c1 & c2;\n                if c != Cube::zero() && (c1 != c2 || c1.num_lits() == a.num_vars) {"))
mut("c14-from-lut-skips-last-minterm", "C14",
    "From<&Lut> for Sop skips the all-ones assignment for functions of 8 or more variables",
    ("src/sop/sop.rs",
     "        let mx = value.num_bits();\n        for mask in 0..mx {\n            if value.value(mask) {\n                ret.cubes.push(Cube::minterm(value.num_vars(), mask));",
     "        let mx = value.num_bits() - if value.num_vars() >= 8 { 1 } else { 0 };\n        for mask in 0..mx {\n            if value.value(mask) {\n                ret.cubes.push(Cube::minterm(value.num_vars(), mask));"))
mut("c14-is-one-any-cube", "C14",
    "Sop::is_one looks at the last cube instead of the first",
    ("src/sop/sop.rs",
     "        match self.cubes.first() {\n            Some(c) => c.is_one(),",
     "        match self.cubes.last() {\n            Some(c) => c.is_one() || (self.cubes.len() > 2 && c.num_lits() == 1),"))

# ---------------------------------------------------------------- C15
mut("c15-constant-term-as-x0-xor-notx0", "C15",
    "From<&Lut> for Esop emits the constant term as x0 ^ !x0 (same function, not the positive-polarity form)",
    ("src/sop/esop.rs",
     "            ret.cubes.push(Cube::from_mask(i as u32, 0));",
     "            if i == 0 && value.num_vars() > 0 {\n                ret.cubes.push(Cube::nth_var(0));\n                ret.cubes.push(Cube::nth_var_inv(0));\n            } else {\n                ret.cubes.push(Cube::from_mask(i as u32, 0));\n            }"))
mut("c15-superset-test-wrong-above-8", "C15",
    "the Moebius sweep toggles the wrong supersets for monomials using variable 8 or above",
    ("src/sop/esop.rs",
     "                if !j & i == 0 {",
     "                if (!j & i == 0) != (i >= 256 && j & 1 == 1 && i & 1 == 0) {"))
mut("c15-not-pushes-zero-cube", "C15",
    "Not for &Esop appends the zero cube instead of the one cube",
    ("src/sop/esop.rs",
     "        ret.cubes.push(Cube::one());\n        ret",
     "        ret.cubes.push(Cube::zero());\n        ret"))
mut("c15-xor-dedups", "C15",
    "Esop::xor sorts and dedups the concatenated cubes (x ^ x = x instead of 0)",
    ("src/sop/esop.rs",
     "        let mut cubes = a.cubes.clone();\n        cubes.extend(&b.cubes);\n        Esop {",
     "        let mut cubes = a.cubes.clone();\n        cubes.extend(&b.cubes);\n        if cubes.len() > 2 {\n            cubes.sort();\n            cubes.dedup();\n        }\n        Esop {"))
mut("c15-is-one-first-cube", "C15",
    "Esop::is_one only looks at the first cube",
    ("src/sop/esop.rs",
     "        if self.cubes.len() != 1 {\n            return false;\n        }",
     "        if self.cubes.is_empty() {\n            return false;\n        }"))

# ---------------------------------------------------------------- C16
mut("c16-cube-drops-bang-var7-3lits", "C16",
    "Cube::fmt drops the '!' of variable 7 in cubes of 3 or more literals",
    ("src/sop/cube.rs",
     "            if neg & 1 != 0 {\n                write!(f, \"!x{}\", i)?;\n            }",
     "            if neg & 1 != 0 {\n                if i == 7 && self.num_lits() >= 3 {\n                    write!(f, \"x{}\", i)?;\n                } else {\n                    write!(f, \"!x{}\", i)?;\n                }\n            }"))
mut("c16-esop-separator-or", "C16",
    "Esop::fmt joins with ' | ' when there are 3 or more cubes",
    ("src/sop/esop.rs",
     "            .collect::<Vec<_>>()\n            .join(\" ^ \");",
     "            .collect::<Vec<_>>()\n            .join(if self.cubes.len() >= 3 { \" | \" } else { \" ^ \" });"))
mut("c16-soes-xor-separator", "C16",
    "Soes::fmt joins the terms with ' ^ ' instead of ' | ' when there are 3 or more",
    ("src/sop/soes.rs",
     "            .collect::<Vec<_>>()\n            .join(\" | \");",
     "            .collect::<Vec<_>>()\n            .join(if self.cubes.len() >= 3 { \" ^ \" } else { \" | \" });"))
mut("c16-cube-msb-first-4lits", "C16",
    "Cube::fmt prints the literals by decreasing index for cubes of exactly 4 literals",
    ("src/sop/cube.rs",
     "        let mut pos = self.pos;\n        let mut neg = self.neg;\n        let mut i = 0;\n        while pos != 0 || neg != 0 {",
     "        if self.num_lits() == 4 {\n            for v in (0..32).rev() {\n                if (self.pos >> v) & 1 != 0 {\n                    write!(f, \"x{}\", v)?;\n                }\n                if (self.neg >> v) & 1 != 0 {\n                    write!(f, \"!x{}\", v)?;\n                }\n            }\n            return Ok(());\n        }\n        let mut pos = self.pos;\n        let mut neg = self.neg;\n        let mut i = 0;\n        while pos != 0 || neg != 0 {"))
mut("c16-ecube-drops-polarity-4vars", "C16",
    "Ecube::fmt omits the leading '1 ^' of an XNOR of 4 or more variables",
    ("src/sop/ecube.rs",
     "        if self.xnor {\n            v.push(\"1\".to_string());\n        }",
     "        if self.xnor && self.num_lits() < 4 {\n            v.push(\"1\".to_string());\n        }"))
mut("c16-sop-missing-separator", "C16",
    "Sop::fmt forgets the separator between the cubes of a Sop with exactly 3 cubes",
    ("src/sop/sop.rs",
     "            .map(|c| c.to_string())\n            .collect::<Vec<_>>()\n            .join(\" | \");\n        write!(f, \"{}\", s)\n    }\n}\n\nimpl From<&Lut> for Sop",
     "            .map(|c| c.to_string())\n            .collect::<Vec<_>>()\n            .join(if self.cubes.len() == 3 { \"\" } else { \" | \" });\n        write!(f, \"{}\", s)\n    }\n}\n\nimpl From<&Lut> for Sop"))

# ---------------------------------------------------------------- C02
rev("c02-before-hex-fix", "C02", "tree before the fix of D1 (from_hex_string yields tables with bits beyond 2^n for n<2)", "e53179e")
mut("c02-static-eq-first-word", "C02",
    "a hand-written PartialEq for StaticLut compares only the first 32 words",
    ("src/static_lut.rs",
     "#[derive(Debug, Clone, Copy, Hash, PartialEq, Eq)]\npub struct StaticLut<const N: usize, const T: usize> {\n    table: [u64; T],\n}",
     "#[derive(Debug, Clone, Copy, Hash, Eq)]\npub struct StaticLut<const N: usize, const T: usize> {\n    table: [u64; T],\n}\n\nimpl<const N: usize, const T: usize> PartialEq for StaticLut<N, T> {\n    fn eq(&self, other: &Self) -> bool {\n        self.table.iter().take(32).eq(other.table.iter().take(32))\n    }\n}"))
mut("c02-symmetric-no-mask-garbage", "C02",
    "fill_symmetric skips the size mask when the count word has bit 62 set and bit 63 clear",
    ("src/operations.rs",
     "        *t &= num_vars_mask(num_vars);\n    }\n}\n\n/// Fill with the parity function",
     "        if count_values >> 62 != 1 {\n            *t &= num_vars_mask(num_vars);\n        }\n    }\n}\n\n/// Fill with the parity function"))
mut("c02-lut-hash-ignores-numvars-eq-not", "C02",
    "a hand-written PartialEq for Lut ignores num_vars (tables of 0..6 variables with the same word compare equal)",
    ("src/lut.rs",
     "#[derive(Debug, Clone, Hash, PartialEq, Eq)]\npub struct Lut {",
     "#[derive(Debug, Clone, Hash, Eq)]\npub struct Lut {"),
    ("src/lut.rs",
     "impl Default for Lut {",
     "impl PartialEq for Lut {\n    fn eq(&self, other: &Self) -> bool {\n        self.table == other.table\n    }\n}\n\nimpl Default for Lut {"))

# ---------------------------------------------------------------- C10
mut("c10-static-flip-wrong-n", "C10",
    "StaticLut::flip_inplace passes N - 1 to the kernel for tables of 8 variables or more (debug assertion / wrong regime)",
    ("src/static_lut.rs",
     "        self.check_var(ind);\n        flip_inplace(N, self.table.as_mut(), ind);",
     "        self.check_var(ind);\n        flip_inplace(if N >= 9 { N - 1 } else { N }, self.table.as_mut(), ind);"))
mut("c10-tryfrom-compares-blocks", "C10",
    "TryFrom<Lut> for StaticLut compares the number of blocks instead of the number of variables",
    ("src/static_lut.rs",
     "        if lut.num_vars() != N {\n            return Err(());\n        }",
     "        if lut.num_blocks() != T {\n            return Err(());\n        }"))
mut("c10-static-threshold-uses-t", "C10",
    "StaticLut::threshold passes the word count instead of the variable count to the kernel for N >= 9",
    ("src/static_lut.rs",
     "        fill_threshold(N, ret.table.as_mut(), k);",
     "        fill_threshold(if N >= 9 { T } else { N }, ret.table.as_mut(), k);"))
mut("c10-static-cmp-ignores-top-word", "C10",
    "Ord for StaticLut skips the most significant word for tables of 32 words or more",
    ("src/static_lut.rs",
     "impl<const N: usize, const T: usize> Ord for StaticLut<N, T> {\n    fn cmp(&self, other: &Self) -> Ordering {\n        return cmp(self.table.as_ref(), other.table.as_ref());",
     "impl<const N: usize, const T: usize> Ord for StaticLut<N, T> {\n    fn cmp(&self, other: &Self) -> Ordering {\n        if T >= 32 {\n            return cmp(&self.table[..T - 1], &other.table[..T - 1]);\n        }\n        return cmp(self.table.as_ref(), other.table.as_ref());"))
mut("c10-static-to-bin-uses-hex-width", "C10",
    "StaticLut::to_bin_string passes N+1 to the kernel for N < 5",
    ("src/static_lut.rs",
     "        to_bin(self.num_vars(), self.table.as_ref())",
     "        to_bin(if N == 4 { 5 } else { self.num_vars() }, self.table.as_ref())"))

# ---------------------------------------------------------------- C17
rev("c17-before-cofactors-fix", "C17", "tree before the fix of D5 (cofactors/from_cofactors without check_var)", "1edd39f")
rev("c17-before-next-overflow-fix", "C17", "tree before the fix of D6 (valid successor step panics only with overflow checks)", "e64f310")
mut("c17-lut-flip-no-check", "C17",
    "Lut::flip_inplace without check_var (the kernel only debug_asserts)",
    ("src/lut.rs",
     "    pub fn flip_inplace(&mut self, ind: usize) {\n        self.check_var(ind);",
     "    pub fn flip_inplace(&mut self, ind: usize) {"))
mut("c17-decomposition-debug-assert", "C17",
    "the decomposition helper checks the variable index with debug_assert! only",
    ("src/decomposition.rs",
     "    assert!(ind < num_vars);",
     "    debug_assert!(ind < num_vars);"))
mut("c17-static-check-bit-le", "C17",
    "StaticLut::check_bit accepts ind == num_bits",
    ("src/static_lut.rs",
     "        assert!(ind < self.num_bits());",
     "        assert!(ind <= self.num_bits());"))
mut("c17-static-from-blocks-prefix", "C17",
    "StaticLut::from_blocks copies the common prefix instead of requiring the exact length",
    ("src/static_lut.rs",
     "        let mut ret = Self::default();\n        ret.table.clone_from_slice(blocks);\n        ret",
     "        let mut ret = Self::default();\n        let k = std::cmp::min(T, blocks.len());\n        ret.table[..k].clone_from_slice(&blocks[..k]);\n        ret"))
mut("c17-lut-bitand-assign-no-size-check", "C17",
    "BitAndAssign<&Lut> for Lut drops its size assertion (the kernel zips and only debug_asserts)",
    ("src/lut.rs",
     "    fn bitand_assign(&mut self, rhs: &Lut) {\n        assert!(self.num_vars == rhs.num_vars);",
     "    fn bitand_assign(&mut self, rhs: &Lut) {"))
mut("c17-swap-second-index-unchecked", "C17",
    "Lut::swap_inplace checks only the first index",
    ("src/lut.rs",
     "        self.check_var(ind1);\n        self.check_var(ind2);\n        swap_inplace(self.num_vars, self.table.as_mut(), ind1, ind2);",
     "        self.check_var(ind1);\n        swap_inplace(self.num_vars, self.table.as_mut(), ind1, ind2);"))

# ---------------------------------------------------------------- C18 (feature optim-mip; the baseline tests do not build it)
rev("c18-before-esop-filter-fix", "C18", "tree before the fix of D7 (ESOP candidate filter drops single positive literals)", "dd3d487")
mut("c18-one-or-too-many-free", "C18",
    "SOP model: the OR count constraint allows two terms per output for free",
    ("src/sop/optim/mip.rs",
     "            self.constraints.push((num_or - &num_cubes + 1).geq(0));",
     "            self.constraints.push((num_or - &num_cubes + 2).geq(0));"))
mut("c18-ecube-cost-uses-lits", "C18",
    "SOP model: the objective charges exclusive cubes by literal count instead of gate count",
    ("src/sop/optim/mip.rs",
     "            expr += (self.ecubes[i].num_gates() as i32 * self.xor_cost) * self.ecube_used[i];",
     "            expr += (self.ecubes[i].num_lits() as i32 * self.xor_cost) * self.ecube_used[i];"))
mut("c18-offset-skipped-last-function", "C18",
    "SOP model: the off-set constraints are not generated for the last of several functions",
    ("src/sop/optim/mip.rs",
     "        for (j, f) in self.functions.iter().enumerate() {\n            for (i, c) in self.cubes.iter().enumerate() {\n                if !c.implies_lut(f) {",
     "        for (j, f) in self.functions.iter().enumerate() {\n            if j > 0 && j + 1 == self.functions.len() {\n                continue;\n            }\n            for (i, c) in self.cubes.iter().enumerate() {\n                if !c.implies_lut(f) {"))
mut("c18-ecube-candidates-3lits", "C18",
    "candidate exclusive cubes are restricted to 3 or more variables",
    ("src/sop/optim.rs",
     "    cubes.retain(|c| c.num_lits() >= 2);",
     "    cubes.retain(|c| c.num_lits() >= 3);"))
mut("c18-esop-shared-cube-not-charged", "C18",
    "ESOP model: the cover constraint linking a cube's use in an output to its cost is only generated for the first output",
    ("src/sop/optim/mip.rs",
     "    fn add_cover_constraints(&mut self) {\n        for j in 0..self.functions.len() {\n            for i in 0..self.cubes.len() {\n                self.constraints\n                    .push((self.cube_used_in_fn[i][j] - self.cube_used[i]).leq(0));\n            }\n        }\n    }\n\n    /// Add a xor constraint",
     "    fn add_cover_constraints(&mut self) {\n        for j in 0..std::cmp::min(1, self.functions.len()) {\n            for i in 0..self.cubes.len() {\n                self.constraints\n                    .push((self.cube_used_in_fn[i][j] - self.cube_used[i]).leq(0));\n            }\n        }\n    }\n\n    /// Add a xor constraint"))

# ---------------------------------------------------------------- C19
mut("c19-only-first-words-filled", "C19",
    "fill_random fills only the first 4 words of larger tables",
    ("src/operations.rs",
     "    for t in table {\n        *t = rand::thread_rng().next_u64() & num_vars_mask(num_vars);",
     "    for t in table.iter_mut().take(4) {\n        *t = rand::thread_rng().next_u64() & num_vars_mask(num_vars);"))
mut("c19-one-word-reused", "C19",
    "fill_random draws one 64-bit word and reuses it for every word of the table",
    ("src/operations.rs",
     "    for t in table {\n        *t = rand::thread_rng().next_u64() & num_vars_mask(num_vars);",
     "    let w = rand::thread_rng().next_u64();\n    for t in table {\n        *t = w & num_vars_mask(num_vars);"))
mut("c19-constant-seed-per-call", "C19",
    "fill_random re-seeds a generator with a constant on every call",
    ("src/operations.rs",
     "    use rand::RngCore;\n    for t in table {\n        *t = rand::thread_rng().next_u64() & num_vars_mask(num_vars);",
     "    use rand::RngCore;\n    use rand::SeedableRng;\n    let mut rng = rand::rngs::StdRng::seed_from_u64(0x5eed + table.len() as u64);\n    for t in table {\n        *t = rng.next_u64() & num_vars_mask(num_vars);"))
mut("c19-constant-seed-per-thread", "C19",
    "fill_random uses a thread-local generator seeded with the same constant in every thread",
    ("src/operations.rs",
     "    use rand::RngCore;\n    for t in table {\n        *t = rand::thread_rng().next_u64() & num_vars_mask(num_vars);\n    }",
     "    use rand::RngCore;\n    use rand::SeedableRng;\n    thread_local! {\n        static LOCAL: std::cell::RefCell<rand::rngs::StdRng> = std::cell::RefCell::new(rand::rngs::StdRng::seed_from_u64(42));\n    }\n    for t in table {\n        *t = LOCAL.with(|r| r.borrow_mut().next_u64()) & num_vars_mask(num_vars);\n    }"))
mut("c19-top-bit-never-set", "C19",
    "fill_random shifts the random word right by one (assignment 63 of every word is always false)",
    ("src/operations.rs",
     "        *t = rand::thread_rng().next_u64() & num_vars_mask(num_vars);",
     "        *t = (rand::thread_rng().next_u64() >> 1) & num_vars_mask(num_vars);"))
rev("c12-before-minterm32-fix", "C12", "tree before the fix of D8 (Cube::minterm(32, m) overflows the variable mask)", "f025167")
