"""Mutant corpus: realistic edits of volute that compile and pass the 55 baseline tests.
Each entry: property it breaks, a description, and exact-once textual edits (file, old, new)."""

MUTANTS = {}


def mut(mid, prop, what, *edits):
    MUTANTS[mid] = {"prop": prop, "what": what, "edits": list(edits)}


# ---------------------------------------------------------------- C01
mut("c01-bitor-ref-forwards-and", "C01",
    "BitOr<&Lut> for Lut (a | &b) forwards to &=",
    ("src/lut.rs",
     """impl BitOr<&Lut> for Lut {
    type Output = Lut;
    fn bitor(self, rhs: &Lut) -> Self::Output {
        let mut l = self;
        l |= rhs;""",
     """impl BitOr<&Lut> for Lut {
    type Output = Lut;
    fn bitor(self, rhs: &Lut) -> Self::Output {
        let mut l = self;
        l &= rhs;"""))
mut("c01-static-xorassign-ref-or", "C01",
    "BitXorAssign<&StaticLut> calls or_inplace",
    ("src/static_lut.rs",
     """    fn bitxor_assign(&mut self, rhs: &Self) {
        xor_inplace(self.table.as_mut(), rhs.table.as_ref());""",
     """    fn bitxor_assign(&mut self, rhs: &Self) {
        or_inplace(self.table.as_mut(), rhs.table.as_ref());"""))
mut("c01-and-skips-last-word", "C01",
    "and_inplace kernel skips the last word of tables with more than 8 words",
    ("src/operations.rs",
     """    for (t1, t2) in table1.iter_mut().zip(table2.iter()) {
        *t1 &= t2;
    }""",
     """    let skip = if table1.len() > 8 { 1 } else { 0 };
    let len = table1.len() - skip;
    for (t1, t2) in table1[..len].iter_mut().zip(table2.iter()) {
        *t1 &= t2;
    }"""))
