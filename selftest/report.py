#!/usr/bin/env python3
"""Write selftest/RESULTS.md from selftest/last_results.json (the last recorded run of every mutant)."""
import json
import os
import sys

HERE = os.path.dirname(os.path.abspath(__file__))
sys.path.insert(0, HERE)
from mutants import MUTANTS  # noqa: E402

res = json.load(open(os.path.join(HERE, "last_results.json")))
rows = []
for key, r in sorted(res.items()):
    mid, tier = key.split("@")
    if mid not in MUTANTS:
        continue
    rows.append((MUTANTS[mid]["prop"], mid, tier, r))
rows.sort()
out = ["# Self-test of the monitors against the mutant corpus", "",
       "One row per mutant of `selftest/mutants.py` (last recorded run). A mutant is a realistic edit of volute",
       "(or, for `rev` entries, the repository before one of the `fix:` commits) that compiles and passes the 55",
       "baseline tests; the property's check is run against it with `VERIF_REPO` and must exit 1 with a",
       "`VIOLATION` line. `first signature` is the first violation signature the check printed.", "",
       "| property | mutant | tier | baseline tests | result | check time (s) | what was changed | first signature |",
       "|---|---|---|---|---|---|---|---|"]
caught = missed = other = 0
for prop, mid, tier, r in rows:
    first = r.get("first", "")
    sig = first.split("] ", 1)[1].split(": ", 1)[0] if "] " in first else ""
    result = r["result"].split(" ")[0]
    if result == "CAUGHT":
        caught += 1
    elif result == "MISSED":
        missed += 1
    else:
        other += 1
    out.append("| %s | %s | %s | %s | %s | %s | %s | `%s` |" % (
        prop, mid, tier, r.get("baseline", "n/a"), result, r.get("check_s", ""),
        MUTANTS[mid]["what"].replace("|", "/"), sig.replace("|", "\\|")))
out += ["", "Totals: %d caught, %d missed, %d invalid/other (of %d recorded; corpus has %d entries)." % (
    caught, missed, other, len(rows), len(MUTANTS)), ""]
open(os.path.join(HERE, "RESULTS.md"), "w").write("\n".join(out))
print("\n".join(out[-3:]))
