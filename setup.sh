#!/bin/sh
# setup_cmd: build every monitor binary in both profiles from files on disk only (offline).
set -e
cd "$(dirname "$0")"
export CARGO_NET_OFFLINE=true
python3 - <<'PY'
import os, sys, importlib.util, importlib.machinery
loader = importlib.machinery.SourceFileLoader("check", os.path.join(os.getcwd(), "check"))
spec = importlib.util.spec_from_loader("check", loader)
chk = importlib.util.module_from_spec(spec); loader.exec_module(chk)
ws, target = chk.prepare_workspace(chk.repo_path())
env = chk.cargo_env(target)
import subprocess
for profile in chk.PROFILES:
    for pkg in ("vmon", "vmon-mip"):
        r = subprocess.run(["cargo", "build", "--offline", "--profile", profile, "-p", pkg, "--bins"], cwd=ws, env=env)
        if r.returncode != 0:
            sys.exit(r.returncode)
# warm the Miri build of the C19 miniature (non-fatal: the check itself reports a Miri problem as inconclusive)
env2 = dict(env, MIRIFLAGS="-Zmiri-many-seeds=0..1")
subprocess.run(["cargo", "+nightly", "miri", "run", "--offline", "-p", "miri-c19"], cwd=ws, env=env2,
               stdout=subprocess.DEVNULL, stderr=subprocess.DEVNULL)
print("setup ok")
PY
